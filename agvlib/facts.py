"""Fact loader: the program as dumped by the driver, plus CFG utilities."""
import json
import os
import pickle

from . import build


class Body:
    __slots__ = ("j", "path", "crate", "kind", "blocks", "locals", "argc", "_succ", "_pred", "_idom", "_ipdom",
                 "_rpo", "prog", "inl_ranges")

    def __init__(self, j, crate, prog):
        self.j = j
        self.path = j["path"]
        self.crate = crate
        self.kind = j["kind"]
        self.blocks = j["blocks"]
        self.locals = j["locals"]
        self.argc = j["argc"]
        self._succ = None
        self._pred = None
        self._idom = None
        self._ipdom = None
        self._rpo = None
        self.prog = prog
        self.inl_ranges = []
        _desugar_replace(self)

    # ------------------------------------------------------------ meta
    @property
    def file(self):
        return self.j["span"]["file"]

    @property
    def line(self):
        return self.j["span"]["lo"]

    def where(self, bb=None):
        if bb is None:
            return "%s:%d" % (self.file, self.line)
        t = self.blocks[bb]["t"]
        ln = t.get("line")
        if ln is None:
            for s in self.blocks[bb]["s"]:
                if "line" in s:
                    ln = s["line"]
        return "%s:%s" % (self.file, ln if ln is not None else self.line)

    def local_name(self, l):
        return self.locals[l].get("name")

    def local_ty(self, l):
        return self.locals[l]["ty"]

    # ------------------------------------------------------------ CFG
    def term(self, bb):
        return self.blocks[bb]["t"]

    def succ(self, bb, include_cleanup=False):
        if self._succ is None:
            self._succ = [term_succ(b["t"]) for b in self.blocks]
        return self._succ[bb]

    def preds(self, bb):
        if self._pred is None:
            self._pred = [[] for _ in self.blocks]
            for i in range(len(self.blocks)):
                for s in self.succ(i):
                    self._pred[s].append(i)
        return self._pred[bb]

    def reachable(self):
        seen = {0}
        st = [0]
        while st:
            b = st.pop()
            for s in self.succ(b):
                if s not in seen:
                    seen.add(s)
                    st.append(s)
        return seen

    def rpo(self):
        if self._rpo is None:
            seen = set()
            order = []
            # iterative DFS postorder
            st = [(0, iter(self.succ(0)))]
            seen.add(0)
            while st:
                n, it = st[-1]
                adv = False
                for s in it:
                    if s not in seen:
                        seen.add(s)
                        st.append((s, iter(self.succ(s))))
                        adv = True
                        break
                if not adv:
                    order.append(n)
                    st.pop()
            self._rpo = list(reversed(order))
        return self._rpo

    def idom(self):
        """Immediate dominators (Cooper-Harvey-Kennedy)."""
        if self._idom is None:
            rpo = self.rpo()
            idx = {b: i for i, b in enumerate(rpo)}
            idom = {rpo[0]: rpo[0]}
            changed = True
            while changed:
                changed = False
                for b in rpo[1:]:
                    new = None
                    for p in self.preds(b):
                        if p in idom:
                            if new is None:
                                new = p
                            else:
                                a, c = p, new
                                while a != c:
                                    while idx[a] > idx[c]:
                                        a = idom[a]
                                    while idx[c] > idx[a]:
                                        c = idom[c]
                                new = a
                    if new is not None and idom.get(b) != new:
                        idom[b] = new
                        changed = True
            self._idom = idom
        return self._idom

    def dominates(self, a, b):
        idom = self.idom()
        if b not in idom or a not in idom:
            return False
        while True:
            if a == b:
                return True
            nb = idom[b]
            if nb == b:
                return False
            b = nb

    def back_edges(self):
        out = []
        for b in self.reachable():
            for s in self.succ(b):
                if self.dominates(s, b):
                    out.append((b, s))
        return out

    def natural_loop(self, tail, head):
        body = {head, tail}
        st = [tail]
        while st:
            n = st.pop()
            if n == head:
                continue
            for p in self.preds(n):
                if p not in body:
                    body.add(p)
                    st.append(p)
        return body

    def can_reach(self, src, dst, avoid=()):
        """Is there a CFG path src ->* dst that avoids the blocks in `avoid`
        (src itself may be in avoid only if src == dst)?"""
        if src == dst:
            return True
        seen = {src}
        st = [src]
        avoid = set(avoid)
        while st:
            b = st.pop()
            for s in self.succ(b):
                if s == dst:
                    return True
                if s not in seen and s not in avoid:
                    seen.add(s)
                    st.append(s)
        return False

    def reach_from(self, src, avoid_edges=()):
        seen = {src}
        st = [src]
        avoid_edges = set(avoid_edges)
        while st:
            b = st.pop()
            for s in self.succ(b):
                if (b, s) in avoid_edges:
                    continue
                if s not in seen:
                    seen.add(s)
                    st.append(s)
        return seen

    # ------------------------------------------------------------ queries
    def calls(self, include_cleanup=False):
        """Yield (bb, term) for every Call terminator on a reachable, non-cleanup block."""
        reach = self.reachable()
        for i, b in enumerate(self.blocks):
            if i not in reach:
                continue
            if b["cleanup"] and not include_cleanup:
                continue
            t = b["t"]
            if t["k"] == "call":
                yield i, t

    def returns(self):
        reach = self.reachable()
        return [i for i, b in enumerate(self.blocks) if i in reach and b["t"]["k"] == "return"]

    def stmts(self):
        reach = self.reachable()
        for i, b in enumerate(self.blocks):
            if i not in reach or b["cleanup"]:
                continue
            for k, s in enumerate(b["s"]):
                yield i, k, s


def _desugar_replace(body):
    """`std::mem::replace(&mut PLACE, v)` is `old = PLACE; PLACE = v; old` — rewritten into those two assignments (the
    call terminator becomes a goto) when the `&mut` argument is a reborrow chain of a place of this body defined in
    the same block.  A test-and-set written with `mem::replace(&mut seen[i], true)` then reads like
    `if seen[i] { .. } else { seen[i] = true; .. }` to every analysis."""
    for blk in body.blocks:
        t = blk.get("t") or {}
        if t.get("k") != "call" or t.get("t") is None:
            continue
        cal = t.get("resolved") or t.get("callee") or ""
        if not (cal.endswith("mem::replace") and len(t.get("args", [])) == 2):
            continue
        a0 = t["args"][0]
        if a0.get("k") not in ("move", "copy") or a0["p"]["pr"]:
            continue
        # follow `_a = &mut (*_b)`, `_b = &mut PLACE` inside this block
        cur = a0["p"]["l"]
        place = None
        for _ in range(4):
            d = [st for st in blk["s"] if st["k"] == "assign" and not st["p"]["pr"] and st["p"]["l"] == cur]
            if len(d) != 1 or d[0]["rv"]["k"] != "ref" or not d[0]["rv"].get("m"):
                break
            pl = d[0]["rv"]["p"]
            if len(pl["pr"]) == 1 and pl["pr"][0].get("k") == "deref":
                cur = pl["l"]
                continue
            if not any(e.get("k") == "deref" for e in pl["pr"]):
                place = pl
            break
        if place is None or not t.get("dest"):
            continue
        line = t.get("line")
        read = {"k": "assign", "p": t["dest"], "rv": {"k": "use", "o": {"k": "copy", "p": place}}, "line": line}
        store = {"k": "assign", "p": place, "rv": {"k": "use", "o": t["args"][1]}, "line": line}
        # test-and-set: `if mem::replace(&mut flag, true) { A } else { B }` — on the true edge the flag already holds
        # `true`, so the store only matters on the false edge: the same as `if flag { A } else { flag = true; B }`
        nxt = body.blocks[t["t"]] if 0 <= t["t"] < len(body.blocks) else None
        v = t["args"][1]
        d = t["dest"]
        if (nxt is not None and not nxt["s"] and nxt["t"].get("k") == "switch" and v.get("k") == "const" and v.get("v") in (True, 1)
                and nxt["t"]["d"].get("k") in ("move", "copy") and nxt["t"]["d"]["p"] == d and not d["pr"]
                and body.locals[d["l"]]["ty"].get("k") == "bool" and len(nxt["t"]["vs"]) == 1 and nxt["t"]["vs"][0][0] == 0):
            false_bb = nxt["t"]["vs"][0][1]
            npred = sum(1 for b2 in body.blocks for x in term_succ(b2["t"]) if x == false_bb)
            if npred == 1:
                blk["s"] = list(blk["s"]) + [read]
                blk["t"] = {"k": "goto", "t": t["t"], "line": line}
                body.blocks[false_bb]["s"] = [store] + list(body.blocks[false_bb]["s"])
                continue
        blk["s"] = list(blk["s"]) + [read, store]
        blk["t"] = {"k": "goto", "t": t["t"], "line": line}


def term_succ(t):
    k = t["k"]
    if k == "goto":
        return [t["t"]]
    if k == "switch":
        out = [x[1] for x in t["vs"]]
        out.append(t["otherwise"])
        # dedupe but keep order
        seen = []
        for o in out:
            if o not in seen:
                seen.append(o)
        return seen
    if k in ("drop", "assert"):
        return [t["t"]]
    if k == "call":
        return [t["t"]] if t["t"] is not None else []
    return []


def callee_of(t):
    """Best identity of a call's callee: resolved impl item if any."""
    r = t.get("resolved")
    if r:
        return r
    return t.get("callee")


# ------------------------------------------------------------------------------------------------------------------
# Inlining of newly extracted private helpers
#
# The rules anchor on functions (`try_from`, `try_from_banks`, ...).  When a maintainer moves part of such a function
# into a new private helper, every guard, store and obligation of that part moves with it.  To keep the anchors where
# the rules look, a call to a private workspace function that is *not* one of the call boundaries the spec tables are
# written against (tables/helper_boundaries.json: the private functions that exist in the pinned tree, plus anything
# the specs or rule packs name) is expanded in place in the caller's MIR: parameters become assignments, the callee's
# blocks are appended with renumbered locals and blocks, each `return` assigns the destination and jumps to the call's
# continuation.  The helper's own body stays in the program (its callers are recorded in Program.inlined).

def _remap_place(pl, loff):
    return {"l": pl["l"] + loff, "pr": [dict(e, l=e["l"] + loff) if e.get("k") == "index" and "l" in e else e for e in pl["pr"]]}


def _remap(x, loff, boff, owner=None):
    """deep copy of a MIR JSON fragment of the callee with locals shifted by loff"""
    if isinstance(x, dict):
        if "l" in x and "pr" in x and isinstance(x.get("pr"), list):
            return _remap_place(x, loff)
        out = {k: _remap(v, loff, boff, owner) for k, v in x.items()}
        if "promoted" in out and owner is not None and "promoted_owner" not in out:
            out["promoted_owner"] = owner          # promoted constants stay those of the helper
        return out
    if isinstance(x, list):
        return [_remap(v, loff, boff, owner) for v in x]
    return x


def _remap_term(t, loff, boff, owner=None):
    t2 = _remap(t, loff, boff, owner)
    k = t2.get("k")
    if k in ("goto", "drop", "assert", "call"):
        if t2.get("t") is not None:
            t2["t"] = t2["t"] + boff
    if k == "switch":
        t2["vs"] = [[v, b + boff] for v, b in t2["vs"]]
        t2["otherwise"] = t2["otherwise"] + boff
    for key in ("unwind", "cleanup_bb"):
        if isinstance(t2.get(key), int):
            t2[key] = t2[key] + boff
    return t2


def _helper_boundaries():
    pth = os.path.join(build.VERIF, "tables", "helper_boundaries.json")
    try:
        with open(pth) as fh:
            return set(json.load(fh)["functions"])
    except Exception:
        return None


def _inline_new_helpers(prog, max_depth=3):
    bounds = _helper_boundaries()
    if bounds is None:
        return
    def inlinable(c):
        h = prog.bodies.get(c)
        if h is None or c in bounds or h.kind not in ("Fn", "AssocFn") or h.j.get("is_pub") or h.j.get("impl_trait"):
            return None
        if "::tests::" in c or len(h.blocks) > 80 or any(loc["ty"].get("k") == "param" for loc in h.locals[:h.argc + 1]):
            return None
        # a `?`-only helper ending in one Ok(payload) is summarised when the terms are built (payload + "every tried
        # value is Ok"): more precise than threading its returns through the caller's blocks
        from . import terms as _terms
        try:
            if _terms.try_helper_summary(prog, c) is not None:
                return None
        except Exception:
            pass
        return h
    for path, body in list(prog.bodies.items()):
        if "::tests::" in path or inlinable(path) is not None and False:
            continue
        chain = {path}
        for _ in range(max_depth):
            todo = []
            for bi, blk in enumerate(body.blocks):
                t = blk["t"]
                if t.get("k") == "call" and t.get("t") is not None and t.get("dest") is not None:
                    c = t.get("resolved") or t.get("callee") or ""
                    h = inlinable(c)
                    if h is not None and c not in chain and h is not body and len(t["args"]) == h.argc:
                        todo.append((bi, c, h))
            if not todo:
                break
            for bi, c, h in todo:
                blk = body.blocks[bi]
                t = blk["t"]
                loff, boff = len(body.locals), len(body.blocks)
                body.locals.extend(json.loads(json.dumps(h.locals)))
                line = t.get("line")
                stm = list(blk["s"])
                for k_, a in enumerate(t["args"]):
                    stm.append({"k": "assign", "p": {"l": loff + k_ + 1, "pr": []}, "rv": {"k": "use", "o": a}, "line": line})
                blk["s"] = stm
                # `helper(..)?`: the continuation is `r = Try::branch(move dest); switch discriminant(r)`.  A return block
                # of the helper that has just built `Ok(..)` / `Err(..)` gets its own copy of those two blocks with the
                # switch already resolved, so that the caller's Ok path stays dominated by the helper's guards.
                tq = None
                cblk = body.blocks[t["t"]] if 0 <= t["t"] < len(body.blocks) else None
                if cblk is not None and not cblk["s"] and cblk["t"].get("k") == "call" and (cblk["t"].get("callee") or "").endswith("ops::Try::branch") \
                        and cblk["t"]["args"] and cblk["t"]["args"][0].get("p") == t["dest"] and cblk["t"].get("t") is not None:
                    dblk = body.blocks[cblk["t"]["t"]]
                    if len(dblk["s"]) == 1 and dblk["s"][0]["rv"].get("k") == "discr" and dblk["s"][0]["rv"]["p"] == cblk["t"]["dest"] \
                            and dblk["t"].get("k") == "switch" and dblk["t"]["d"].get("p") == dblk["s"][0]["p"]:
                        arms = dict((v, b_) for v, b_ in dblk["t"]["vs"])
                        if 0 in arms and 1 in arms:
                            tq = (cblk, dblk, arms)
                new_blocks = []
                for hb in h.blocks:
                    nb = {"s": [_remap(st, loff, boff, c) for st in hb["s"]], "t": _remap_term(hb["t"], loff, boff, c), "cleanup": hb.get("cleanup", False)}
                    if nb["t"].get("k") == "return":
                        nb["s"] = nb["s"] + [{"k": "assign", "p": t["dest"], "rv": {"k": "use", "o": {"k": "move", "p": {"l": loff, "pr": []}}}, "line": line}]
                        nb["t"] = {"k": "goto", "t": t["t"], "line": line}
                        variant = None
                        for st in hb["s"]:
                            if st["k"] == "assign" and st["p"] == {"l": 0, "pr": []}:
                                rv = st["rv"]
                                variant = None
                                if rv.get("k") == "aggr" and rv.get("ak") == "adt" and str(rv.get("p", "")).endswith(("result::Result", "option::Option")):
                                    vn = rv.get("vname")
                                    variant = 0 if vn in ("Ok", "Some") else 1 if vn in ("Err", "None") else None
                        if tq is not None and variant is not None:
                            nb["_thread"] = variant
                    new_blocks.append(nb)
                body.blocks.extend(new_blocks)
                if tq is not None:
                    cblk, dblk, arms = tq

                    def variant_of(stmts, local0):
                        v_ = None
                        for st in stmts:
                            if st["k"] == "assign" and st["p"] == {"l": local0, "pr": []}:
                                rv = st["rv"]
                                v_ = None
                                if rv.get("k") == "aggr" and rv.get("ak") == "adt" and str(rv.get("p", "")).endswith(("result::Result", "option::Option")):
                                    vn = rv.get("vname")
                                    v_ = 0 if vn in ("Ok", "Some") else 1 if vn in ("Err", "None") else None
                        return v_
                    # rustc merges the returns of a function into one block: thread from its predecessors, each of
                    # which has just assigned the variant
                    ret_idx = {boff + i for i, hb in enumerate(h.blocks) if hb["t"].get("k") == "return"}
                    for i, nb in enumerate(list(new_blocks)):
                        if nb.get("_thread") is None and nb["t"].get("k") == "goto" and nb["t"]["t"] in ret_idx and (boff + i) not in ret_idx:
                            rb = new_blocks[nb["t"]["t"] - boff]
                            v = variant_of(nb["s"], loff)
                            if v is not None and variant_of(rb["s"][:-1], loff) is None:
                                nb["s"] = nb["s"] + json.loads(json.dumps(rb["s"]))
                                nb["_thread"] = v
                    for nb in new_blocks:
                        v = nb.pop("_thread", None)
                        if v is None:
                            continue
                        ci_ = len(body.blocks)
                        c2 = {"s": [], "t": dict(json.loads(json.dumps(cblk["t"])), t=ci_ + 1), "cleanup": False}
                        d2 = {"s": json.loads(json.dumps(dblk["s"])), "t": {"k": "goto", "t": arms[v], "line": line}, "cleanup": False}
                        body.blocks.append(c2)
                        body.blocks.append(d2)
                        nb["t"] = {"k": "goto", "t": ci_, "line": line}
                for nb in new_blocks:
                    nb.pop("_thread", None)
                blk["t"] = {"k": "goto", "t": boff, "line": line}
                prog.inlined.setdefault(c, set()).add(path)
                body.inl_ranges.append((boff, boff + len(h.blocks), c))       # these blocks are a copy of helper c's body
                chain.add(c)
            body._succ = body._pred = body._idom = body._ipdom = body._rpo = None


class Program:
    def __init__(self, fdir):
        self.fdir = fdir
        self.bodies = {}
        self.adts = {}
        self.consts = {}
        self.crates = []
        for c in build.WORKSPACE_CRATES:
            p = os.path.join(fdir, c + ".json")
            with open(p) as fh:
                d = json.load(fh)
            self.crates.append(c)
            for b in d["bodies"]:
                body = Body(b, c, self)
                key = b["path"]
                if key in self.bodies:
                    # duplicate path (e.g. two anonymous impls): disambiguate by line
                    key = "%s@%d" % (key, b["span"]["lo"])
                    body.path = key
                self.bodies[key] = body
            for a in d["adts"]:
                self.adts[a["path"]] = a
            for k in d["consts"]:
                self.consts[k["path"]] = k
        self._callers = None
        self.inlined = {}        # helper path -> callers it was inlined into
        _inline_new_helpers(self)

    def body(self, path):
        b = self.bodies.get(path)
        if b is None:
            raise AnchorMissing("body not found: %s" % path)
        return b

    def find_bodies(self, pred):
        return [b for b in self.bodies.values() if pred(b)]

    def closures_of(self, path):
        return [b for b in self.bodies.values() if b.kind == "Closure" and b.j.get("parent") == path]

    def callees(self, body):
        out = set()
        for _, t in body.calls():
            c = callee_of(t)
            if c:
                out.add(c)
            br = self.bridge(t)
            if br:
                out.add(br)
            # fn items / closures passed as arguments
            for a in t["args"]:
                if a.get("k") == "const" and a.get("fn"):
                    out.add(a.get("fn_resolved") or a["fn"])
        # closures constructed in this body
        for _, _, s in body.stmts():
            if s["k"] == "assign":
                rv = s["rv"]
                if rv["k"] == "aggr" and rv.get("ak") == "closure":
                    out.add(rv["p"])
                if rv["k"] == "cast" and rv["o"].get("fn"):
                    out.add(rv["o"].get("fn_resolved") or rv["o"]["fn"])
                if rv["k"] == "use" and rv["o"].get("fn"):
                    out.add(rv["o"].get("fn_resolved") or rv["o"]["fn"])
        return out

    def bridge(self, t):
        """blanket impls in core that forward to a workspace impl: T::try_into() -> <U as TryFrom<T>>::try_from,
        T::into() -> <U as From<T>>::from, T::to_string() -> <T as Display>::fmt"""
        r = t.get("resolved") or ""
        ga = t.get("gargs") or []
        def nm(g):
            return g.get("s") or g.get("p")
        if r == "<T as std::convert::TryInto<U>>::try_into" and len(ga) == 2:
            c = "<%s as std::convert::TryFrom<%s>>::try_from" % (nm(ga[1]), nm(ga[0]))
            return c if c in self.bodies else None
        if r == "<T as std::convert::Into<U>>::into" and len(ga) == 2:
            c = "<%s as std::convert::From<%s>>::from" % (nm(ga[1]), nm(ga[0]))
            return c if c in self.bodies else None
        return None

    def closure(self, entries):
        """Call-graph closure over workspace bodies (paths)."""
        seen = set()
        st = [e for e in entries]
        while st:
            p = st.pop()
            if p in seen or p not in self.bodies:
                continue
            seen.add(p)
            b = self.bodies[p]
            for c in self.callees(b):
                if c in self.bodies and c not in seen:
                    st.append(c)
            # promoted bodies
            i = 0
            while True:
                pp = "%s::promoted[%d]" % (p, i)
                if pp in self.bodies:
                    if pp not in seen:
                        st.append(pp)
                    i += 1
                else:
                    break
        return seen

    def callers(self):
        if self._callers is None:
            m = {}
            for p, b in self.bodies.items():
                for c in self.callees(b):
                    m.setdefault(c, set()).add(p)
            self._callers = m
        return self._callers

    def const_scalar(self, path):
        c = self.consts.get(path)
        if c is None:
            raise AnchorMissing("const not found: %s" % path)
        v = c.get("val", {})
        if "v" not in v:
            raise AnchorMissing("const has no scalar value: %s" % path)
        return v["v"]

    def const_lit(self, path):
        c = self.consts.get(path)
        if c is None or "lit" not in c:
            raise AnchorMissing("const literal not found: %s" % path)
        return lit_value(c["lit"], self)


class AnchorMissing(Exception):
    pass


def lit_value(l, prog=None):
    """HIR literal tree -> python value (tuples for tuples, lists for arrays)."""
    k = l["k"]
    if k == "array":
        return [lit_value(x, prog) for x in l["e"]]
    if k == "tuple":
        return tuple(lit_value(x, prog) for x in l["e"])
    if k in ("str",):
        return l["v"]
    if k == "int":
        return int(l["v"])
    if k == "char":
        return chr(int(l["v"]))
    if k == "float":
        return float(l["v"].replace("_", ""))
    if k == "bool":
        return bool(l["v"])
    if k == "bytes":
        return bytes(l["v"])
    if k == "cast":
        return lit_value(l["e"], prog)
    if k == "path" and prog is not None and l["p"] in prog.consts:
        c = prog.consts[l["p"]]
        if "v" in c.get("val", {}):
            return c["val"]["v"]
        if "lit" in c:
            return lit_value(c["lit"], prog)
    if k == "struct":
        return {"struct": l["p"], "fields": {f[0]: lit_value(f[1], prog) for f in l["f"]}}
    return ("expr", l)


_PROG_CACHE = {}


def load(repo=None):
    fdir = build.facts_dir(repo)
    if fdir in _PROG_CACHE:
        return _PROG_CACHE[fdir]
    # the pickle holds the *loaded* program (with this module's rewrites applied): key it by this module's source
    import hashlib
    with open(__file__.replace(".pyc", ".py"), "rb") as fh_:
        ver = hashlib.sha1(fh_.read()).hexdigest()[:10]
    pk = os.path.join(fdir, "program.%s.pickle" % ver)
    prog = None
    if os.path.exists(pk):
        try:
            with open(pk, "rb") as fh:
                prog = pickle.load(fh)
        except Exception:
            prog = None
    if prog is None:
        prog = Program(fdir)
        try:
            tmp = pk + ".%d" % os.getpid()
            with open(tmp, "wb") as fh:
                pickle.dump(prog, fh, protocol=pickle.HIGHEST_PROTOCOL)
            os.replace(tmp, pk)
        except Exception:
            pass
    _PROG_CACHE[fdir] = prog
    return prog
