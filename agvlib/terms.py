"""Layer 1: symbolic def-use terms over one MIR body.

A *term* is a nested tuple describing how a value is computed from the
function's parameters, constants and call results, obtained by following the
(unique) definitions of MIR temporaries.  Terms are the vocabulary of the
structural rules: guards are recognised by the shape of their term, never by
local names, line numbers or source text.

  ("param", i)                     i-th parameter (1-based MIR local)
  ("const", v, tystr)              scalar constant
  ("str", s) ("bytes", b)          literals
  ("fn", path)                     fn item / closure path used as a value
  ("static", path) ("cdef", path)  reference to a static / named const item
  ("mem", bytes)                   promoted constant memory
  ("call", callee, args, site)     call result; `site` = bb index (ignored by same())
  ("bin", op, a, b) ("un", op, a) ("cast", kind, a, tystr)
  ("field", base, i) ("deref", base) ("ref", base) ("index", base, idx)
  ("cindex", base, off, from_end) ("downcast", base, v) ("discr", base) ("len", base)
  ("aggr", what, ops)              what = "tuple" | "array" | "closure:<path>" | "adt:<path>::<variant>"
  ("var", l)                       local with several definitions (opaque); see defs_of
  ("uninit", l)
"""
from . import pp
from .facts import callee_of


def cname(t, prog=None):
    """Canonical callee name of a call terminator."""
    r = t.get("resolved")
    if r and (t.get("resolved_local") or (r.startswith("alpha_g") or r.startswith("<alpha_g"))):
        return r
    return t.get("callee") or r or "<indirect>"


class Defs:
    """Definition sites of each local of a body."""

    def __init__(self, body):
        self.body = body
        n = len(body.locals)
        self.whole = [[] for _ in range(n)]     # (bb, idx|'t', rvalue-or-call)
        self.partial = [[] for _ in range(n)]   # writes to a projection of the local
        self.mut_borrowed = [False] * n
        reach = body.reachable()
        for bi, blk in enumerate(body.blocks):
            if bi not in reach or blk["cleanup"]:
                continue
            for si, s in enumerate(blk["s"]):
                if s["k"] == "assign":
                    p = s["p"]
                    if not p["pr"]:
                        self.whole[p["l"]].append((bi, si, s["rv"]))
                    else:
                        self.partial[p["l"]].append((bi, si, s))
                    rv = s["rv"]
                    if rv["k"] in ("ref", "rawptr") and rv.get("m", True):
                        # a mutable borrow of the local's own storage (not of what it points to)
                        if not any(e["k"] == "deref" for e in rv["p"]["pr"]):
                            self.mut_borrowed[rv["p"]["l"]] = True
                elif s["k"] == "setdiscr":
                    self.partial[s["p"]["l"]].append((bi, si, s))
            t = blk["t"]
            if t["k"] == "call":
                d = t["dest"]
                if not d["pr"]:
                    self.whole[d["l"]].append((bi, "t", t))
                else:
                    self.partial[d["l"]].append((bi, "t", t))
        # `let slot = &mut a[i][j]; .. *slot = v;`: a reference to an element of a local aggregate that is only read and
        # written through (never handed to other code) is that element — its stores are stores to the aggregate
        self._element_refs(body, reach)
        # a `mut` parameter that is reassigned in the body has its argument as the first of several definitions
        # (a read after `i = i + 4` must not see the guard that was checked on the argument)
        for l in range(1, min(body.argc, n - 1) + 1):
            if self.whole[l]:
                self.whole[l].insert(0, (0, -1, {"k": "use", "o": {"k": "param_init", "l": l}}))


def _uses_whole(x, r):
    """does the JSON fragment use local r itself (no projection) as an operand, or borrow it / through it mutably?"""
    if isinstance(x, dict):
        if x.get("k") in ("copy", "move") and isinstance(x.get("p"), dict) and x["p"].get("l") == r and not x["p"].get("pr"):
            return True
        if x.get("k") in ("ref", "rawptr") and x.get("m", True) and isinstance(x.get("p"), dict) and x["p"].get("l") == r:
            return True
        return any(_uses_whole(v, r) for v in x.values())
    if isinstance(x, list):
        return any(_uses_whole(v, r) for v in x)
    return False


def _element_refs(self, body, reach):
    n = len(body.locals)
    for r in range(body.argc + 1, n):
        ty = body.locals[r]["ty"]
        if not (ty.get("k") == "ref" and ty.get("m")):
            continue
        w = self.whole[r]
        if len(w) != 1 or w[0][1] == "t":
            continue
        rv = w[0][2]
        if not (rv.get("k") == "ref" and rv.get("m") and rv["p"]["pr"] and not any(e["k"] == "deref" for e in rv["p"]["pr"])):
            continue
        a = rv["p"]["l"]
        if a <= body.argc:
            continue
        parts = self.partial[r]
        if not parts or any(si == "t" or st.get("k") != "assign" or not st["p"]["pr"] or st["p"]["pr"][0]["k"] != "deref" for (bi, si, st) in parts):
            continue
        # the reference must not escape: no whole use of r, no mutable (re)borrow through it
        esc = False
        for bi in reach:
            blk = body.blocks[bi]
            if blk.get("cleanup"):
                continue
            for si, st in enumerate(blk["s"]):
                if (bi, si) == (w[0][0], w[0][1]):
                    continue
                if st.get("k") == "assign" and _uses_whole(st.get("rv"), r):
                    esc = True
            t = blk["t"]
            if _uses_whole({k: v for k, v in t.items() if k not in ("dest",)}, r):
                esc = True
        if esc:
            continue
        # index locals of the borrowed place must not be redefined between the borrow and the stores: require single
        # definitions
        idx_ok = all(len(self.whole[e["l"]]) == 1 and not self.partial[e["l"]] for e in rv["p"]["pr"] if e["k"] == "index")
        if not idx_ok:
            continue
        for (bi, si, st) in parts:
            st2 = dict(st)
            st2["p"] = {"l": a, "pr": list(rv["p"]["pr"]) + list(st["p"]["pr"][1:])}
            self.partial[a].append((bi, si, st2))
        self.partial[r] = []
        # the borrow itself is accounted for: if it was the only mutable borrow of `a`, `a` is not "mutated elsewhere"
        others = False
        for bi in reach:
            blk = body.blocks[bi]
            if blk.get("cleanup"):
                continue
            for si, st in enumerate(blk["s"]):
                if (bi, si) == (w[0][0], w[0][1]) or st.get("k") != "assign":
                    continue
                rv2 = st["rv"]
                if rv2.get("k") in ("ref", "rawptr") and rv2.get("m", True) and rv2["p"]["l"] == a and not any(e["k"] == "deref" for e in rv2["p"]["pr"]):
                    others = True
        if not others:
            self.mut_borrowed[a] = False


Defs._element_refs = _element_refs


class Terms:
    def __init__(self, body, prog=None, positions=False):
        self.body = body
        self.prog = prog
        self.defs = Defs(body)
        self._memo = {}
        self._busy = set()
        # positions=True: a read of a multi-definition local is tagged with the program point of the reading
        # statement, ("var", l, (block, stmt index | "t")), so that two reads separated by a redefinition are
        # different terms (used by the panic-obligation engine; the table-comparison packs keep plain ("var", l))
        self.positions = positions
        self._pos = None

    def var(self, l):
        return ("var", l, self._pos) if self.positions else ("var", l)

    # -------------------------------------------------------------- locals
    def single_def(self, l):
        d = self.defs
        if l >= 1 and l <= self.body.argc:
            return None
        if len(d.whole[l]) == 1 and not d.partial[l]:
            return d.whole[l][0]
        return None

    def local(self, l):
        if l in self._memo:
            return self._memo[l]
        if l >= 1 and l <= self.body.argc and not self.defs.whole[l]:
            t = ("param", l)
            self._memo[l] = t
            return t
        if l in self._busy:
            return self.var(l)
        sd = self.single_def(l)
        if sd is None:
            if self.defs.whole[l] or self.defs.partial[l]:
                t = self.var(l)
                if not self.positions:
                    self._memo[l] = t
                return t
            t = ("uninit", l)
            self._memo[l] = t
            return t
        # a single whole definition; a later &mut borrow may still change the
        # value (e.g. iterators) but the *initial* value is this term.  Rules
        # that care use `is_stable`.
        self._busy.add(l)
        bi, si, x = sd
        saved = self._pos
        self._pos = (bi, si)          # reads inside this definition happen at its program point
        try:
            if si == "t":
                t = self.call_term(x, bi)
            else:
                t = self.rvalue(x)
        finally:
            self._pos = saved
        self._busy.discard(l)
        if self.defs.mut_borrowed[l]:
            # initialised once but later mutated through a `&mut` view (Vec::push, copy_from_slice,
            # Iterator::next ...): the term records the initial value and says so.
            t = ("mut", l, t)
        self._memo[l] = t
        return t

    def is_stable(self, l):
        """True if the local is assigned exactly once, never partially and never &mut-borrowed."""
        return (l >= 1 and l <= self.body.argc and not self.defs.whole[l] and not self.defs.partial[l]
                and not self.defs.mut_borrowed[l]) or (
            self.single_def(l) is not None and not self.defs.mut_borrowed[l])

    # -------------------------------------------------------------- places / operands
    def place(self, p):
        t = self.local(p["l"])
        for e in p["pr"]:
            k = e["k"]
            if k == "deref":
                if t[0] == "ref":
                    t = t[1]
                else:
                    t = ("deref", t)
            elif k == "field":
                if t[0] == "aggr" and e["i"] < len(t[2]) and not t[1].startswith("closure"):
                    t = t[2][e["i"]]
                elif t[0] == "bin" and t[1].endswith("WithOverflow") and e["i"] == 0:
                    t = ("bin", t[1][:-len("WithOverflow")], t[2], t[3])
                elif t[0] == "call" and short(t[1]) in ("<impl [T]>::split_at", "<impl [T]>::split_at_mut") and len(t[2]) == 2 and e["i"] in (0, 1):
                    # `s.split_at(k)`: (.0, .1) = (&s[..k], &s[k..])
                    rk = "adt:std::ops::RangeTo::RangeTo" if e["i"] == 0 else "adt:std::ops::RangeFrom::RangeFrom"
                    t = ("call", "std::ops::Index::index", (t[2][0], ("aggr", rk, (t[2][1],))), t[3])
                elif (t[0] == "downcast" and t[2] == "Continue" and e["i"] == 0 and t[1][0] == "call"
                      and short(t[1][1]) == "Try::branch" and len(t[1][2]) == 1):
                    tried_ = t[1][2][0]
                    x_ = tried_
                    while x_[0] in ("ref", "deref"):
                        x_ = x_[1]
                    summ = try_helper_summary(self.prog, x_[1]) if (x_[0] == "call" and not self.positions) else None
                    if summ is not None:
                        # `helper(args)?` of a private `?`-only helper: its Ok payload with the arguments substituted
                        t = _subst_params(summ[0], x_[2])
                    else:
                        y_ = x_
                        if y_[0] == "call" and short(y_[1]) in ("Option::<T>::ok_or", "Option::<T>::ok_or_else") and len(y_[2]) == 2:
                            # `opt.ok_or(e)?` evaluates to the payload of `opt` (the `let Some(v) = opt else { return Err(e) }` form)
                            t = ("field", ("downcast", y_[2][0], "Some"), 0)
                        else:
                            t = ("try", tried_)
                else:
                    t = ("field", t, e["i"])
            elif k == "index":
                t = ("index", t, self.local(e["l"]))
            elif k == "cindex":
                done = False
                if t[0] == "call" and short(t[1]) == "<impl [T; N]>::map" and len(t[2]) == 2 and not e["end"] and self.prog is not None:
                    # `let [a, b] = [x, y].map(f)`: component k is f(k-th element)
                    arr, cl = t[2][0], t[2][1]
                    while arr[0] in ("ref", "deref"):
                        arr = arr[1]
                    while cl[0] in ("ref", "deref"):
                        cl = cl[1]
                    if arr[0] == "aggr" and arr[1] == "array" and e["off"] < len(arr[2]) and cl[0] == "aggr" and cl[1].startswith("closure:"):
                        ap = apply_closure(self.prog, cl, (arr[2][e["off"]],))
                        if ap is not None:
                            t = ap
                            done = True
                if not done:
                    t = ("cindex", t, e["off"], e["end"])
            elif k == "downcast":
                t = ("downcast", t, e["name"])
            elif k == "subslice":
                t = ("subslice", t, e["from"], e["to"], e["end"])
            else:
                t = ("proj?", t)
        return t

    def operand(self, o):
        k = o["k"]
        if k in ("copy", "move"):
            return self.place(o["p"])
        if k == "param_init":
            return ("param", o["l"])
        if k == "const":
            if "fn" in o:
                return ("fn", o.get("fn_resolved") or o["fn"])
            if "v" in o:
                return ("const", o["v"], pp.ty(o["ty"]))
            if "str" in o:
                return ("str", o["str"])
            if "bytes" in o:
                return ("bytes", tuple(o["bytes"]))
            if "static" in o:
                return ("static", o["static"])
            if "def" in o:
                return ("cdef", o["def"])
            if "promoted" in o and self.prog is not None and not self.body.path.endswith("]"):
                pb = self.prog.bodies.get("%s::promoted[%d]" % (o.get("promoted_owner") or self.body.path, o["promoted"]))
                if pb is not None and len(pb.blocks) <= 3:
                    pt = Terms(pb, None)
                    rets = [pt.rvalue(x) if si != "t" else None for (bi, si, x) in pt.defs.whole[0]]
                    if len(rets) == 1 and rets[0] is not None:
                        r = rets[0]
                        while r[0] in ("ref", "deref"):
                            r = r[1]
                        if r[0] in ("str", "bytes", "const", "mem", "aggr", "cdef", "static"):
                            return ("ref", r)
            if "mem" in o and o["mem"] is not None:
                return ("mem", tuple(o["mem"]), pp.ty(o["ty"]))
            if o.get("zst"):
                return ("zst", pp.ty(o["ty"]))
            return ("const?", o.get("dbg", ""), pp.ty(o["ty"]))
        return ("op?",)

    def operand_is_float(self, o):
        if o.get("k") == "const":
            return o.get("ty", {}).get("k") == "float"
        if o.get("k") in ("copy", "move"):
            p = o["p"]
            ty = self.body.locals[p["l"]]["ty"]
            for e in p["pr"]:
                if e["k"] == "field":
                    ty = e["ty"]
                elif e["k"] == "deref" and ty.get("k") in ("ref", "ptr"):
                    ty = ty["t"]
                else:
                    return False
            return ty.get("k") == "float"
        return False

    def rvalue(self, rv):
        k = rv["k"]
        if k == "use":
            return self.operand(rv["o"])
        if k == "ref":
            inner = self.place(rv["p"])
            if inner[0] == "deref":
                return inner[1]      # &*x == x (reborrow)
            return ("ref", inner)
        if k == "rawptr":
            return ("ref", self.place(rv["p"]))
        if k == "copyderef":
            return self.place(rv["p"])
        if k == "cast":
            return ("cast", rv["ck"], self.operand(rv["o"]), pp.ty(rv["ty"]))
        if k == "binop":
            if self.operand_is_float(rv["a"]) or self.operand_is_float(rv["b"]):
                return ("bin", rv["op"], self.operand(rv["a"]), self.operand(rv["b"]), "f")
            return ("bin", rv["op"], self.operand(rv["a"]), self.operand(rv["b"]))
        if k == "unop":
            if rv["op"] == "PtrMetadata":
                return ("len", self.operand(rv["o"]))
            return ("un", rv["op"], self.operand(rv["o"]))
        if k == "discr":
            return ("discr", self.place(rv["p"]))
        if k == "repeat":
            return ("repeat", self.operand(rv["o"]), rv["n"])
        if k == "aggr":
            ak = rv["ak"]
            if ak == "adt":
                what = "adt:%s::%s" % (rv["p"], rv["vname"])
            elif ak == "closure":
                what = "closure:%s" % rv["p"]
            else:
                what = ak
            return ("aggr", what, tuple(self.operand(o) for o in rv["ops"]))
        return ("rv?", k)

    def call_term(self, t, bb):
        args = tuple(self.operand(a) for a in t["args"])
        callee = cname(t)
        if self.prog is not None:
            inl = inline_helper(self.prog, callee, args)
            if inl is not None:
                return inl
            if "{closure#" in callee.rsplit("::", 1)[-1] and callee in self.prog.bodies and len(args) == 2:
                red = beta_reduce(self.prog, callee, args)
                if red is not None:
                    return red
        return ("call", callee, args, bb)

    # -------------------------------------------------------------- helpers
    def cond_of_switch(self, bb):
        t = self.body.blocks[bb]["t"]
        if t["k"] != "switch":
            return None
        return self.operand(t["d"])


def beta_reduce(prog, callee, args):
    """A local closure called directly (`let f = |x| g(cap, x); ... f(a)`): the closure's single straight-line result with
    the captures and the argument substituted.  None when the closure value is not the literal closure of this body, has
    several returns / branches, or mutates captured state."""
    env = args[0]
    while env[0] in ("ref", "deref"):
        env = env[1]
    if not (env[0] == "aggr" and env[1] == "closure:" + callee):
        return None
    tup = args[1]
    if not (tup[0] == "aggr" and tup[1] == "tuple"):
        return None
    return apply_closure(prog, env, tup[2])


def apply_closure(prog, env, argterms):
    """closure literal `env` = ("aggr", "closure:<path>", captures) applied to argument terms: the single straight-line
    result term with captures and arguments substituted, else None"""
    if not (env[0] == "aggr" and env[1].startswith("closure:")):
        return None
    cb = prog.bodies.get(env[1][len("closure:"):])
    if cb is None:
        return None
    if len(cb.reachable()) > 12 or any(cb.blocks[b_]["t"]["k"] == "switch" for b_ in cb.reachable()):
        return None
    from .guards import closure_ret, subst_upvars
    try:
        rets = closure_ret(prog, cb)
    except Exception:
        return None
    if len(rets) != 1:
        return None
    if any(z[0] in ("mut", "var", "loopval") or z == ("param", 1) and False for z in walk(rets[0])):
        return None
    r = subst_upvars(rets[0], env[2])
    if any(z == ("cenv",) for z in walk(r)):
        return None

    def sub(x):
        if not isinstance(x, tuple) or not x or not isinstance(x[0], str):
            return x
        if x[0] == "carg":
            return argterms[x[1]] if x[1] < len(argterms) else x
        out = [x[0]]
        for y in x[1:]:
            if isinstance(y, tuple) and y and isinstance(y[0], str):
                out.append(sub(y))
            elif isinstance(y, tuple):
                out.append(tuple(sub(z) if isinstance(z, tuple) else z for z in y))
            else:
                out.append(y)
        return tuple(out)
    return sub(r)


def strip(t):
    """Remove wrappers that do not change the value: refs/derefs, moves, identity casts,
    `into`/`from`/`clone`/`deref`/`as_ref`/`borrow` calls."""
    while True:
        if t[0] in ("ref", "deref"):
            t = t[1]
            continue
        if t[0] == "call" and len(t[2]) == 1 and short(t[1]) in TRANSPARENT_CALLS:
            t = t[2][0]
            continue
        return t


def unmut(t):
    """look through refs and the `mut` marker (for iterator / builder values consumed right after creation)"""
    while t[0] in ("ref", "deref", "mut"):
        t = t[1] if t[0] != "mut" else t[2]
    return t


TRANSPARENT_CALLS = {
    "Clone::clone", "Deref::deref", "DerefMut::deref_mut", "AsRef::as_ref", "Borrow::borrow", "Into::into",
    "From::from", "IntoIterator::into_iter", "ToOwned::to_owned",
    "Iterator::copied", "Iterator::cloned",      # same elements, by value
}


def short(callee):
    """`std::iter::Iterator::position` -> `Iterator::position`;
    `<A as B>::f` stays as is; `std::vec::Vec::<T, A>::len` -> `Vec::<T, A>::len`;
    `core::slice::<impl [T]>::len` -> `<impl [T]>::len`."""
    if callee.startswith("<"):
        return callee
    parts = split_path(callee)
    if len(parts) < 2:
        return callee
    prev = parts[-2]
    if prev.startswith("<") and not prev.startswith("<impl") and len(parts) >= 3:
        return "::".join(parts[-3:])
    return "::".join(parts[-2:])


def split_path(p):
    out, depth, cur = [], 0, ""
    i = 0
    while i < len(p):
        c = p[i]
        if c in "<([":
            depth += 1
        elif c in ">)]":
            depth -= 1
        if c == ":" and depth == 0 and p[i:i + 2] == "::":
            out.append(cur)
            cur = ""
            i += 2
            continue
        cur += c
        i += 1
    out.append(cur)
    return out


def same(a, b):
    """Structural equality ignoring call sites."""
    if a[0] != b[0]:
        return False
    if a[0] == "call":
        return a[1] == b[1] and len(a[2]) == len(b[2]) and all(same(x, y) for x, y in zip(a[2], b[2]))
    if len(a) != len(b):
        return False
    for x, y in zip(a[1:], b[1:]):
        if isinstance(x, tuple) and isinstance(y, tuple) and x and y and isinstance(x[0], str) and isinstance(y[0], str):
            if not same(x, y):
                return False
        elif isinstance(x, tuple) and isinstance(y, tuple):
            if len(x) != len(y):
                return False
            for p, q in zip(x, y):
                if isinstance(p, tuple) and isinstance(q, tuple) and p and isinstance(p[0], str):
                    if not same(p, q):
                        return False
                elif p != q:
                    return False
        elif x != y:
            return False
    return True


def walk(t):
    """Yield all sub-terms."""
    yield t
    for x in t[1:]:
        if isinstance(x, tuple) and x and isinstance(x[0], str) and x[0] in KINDS:
            yield from walk(x)
        elif isinstance(x, tuple):
            for y in x:
                if isinstance(y, tuple) and y and isinstance(y[0], str) and y[0] in KINDS:
                    yield from walk(y)


KINDS = {"param", "const", "str", "bytes", "fn", "static", "cdef", "mem", "call", "bin", "un", "cast", "field",
         "deref", "ref", "index", "cindex", "downcast", "discr", "len", "aggr", "var", "uninit", "repeat", "zst",
         "const?", "subslice", "proj?", "rv?", "op?", "try", "carg", "cenv", "mut"}


def calls_in(t):
    return [x for x in walk(t) if x[0] == "call"]


def show(t, depth=0):
    k = t[0]
    if depth > 12:
        return "…"
    d = depth + 1
    if k == "param":
        return "arg%d" % t[1]
    if k == "const":
        return "%s_%s" % (t[1], t[2])
    if k == "str":
        return repr(t[1])
    if k == "bytes":
        return "b%r" % bytes(t[1])
    if k in ("fn", "static", "cdef"):
        return "%s:%s" % (k, t[1])
    if k == "mem":
        return "mem%s" % list(t[1])
    if k == "call":
        return "%s(%s)" % (short(t[1]), ", ".join(show(a, d) for a in t[2]))
    if k == "bin":
        return "%s(%s, %s)" % (t[1], show(t[2], d), show(t[3], d))
    if k == "un":
        return "%s(%s)" % (t[1], show(t[2], d))
    if k == "cast":
        return "(%s as %s)" % (show(t[2], d), t[3])
    if k == "field":
        return "%s.%d" % (show(t[1], d), t[2])
    if k == "deref":
        return "*%s" % show(t[1], d)
    if k == "ref":
        return "&%s" % show(t[1], d)
    if k == "index":
        return "%s[%s]" % (show(t[1], d), show(t[2], d))
    if k == "cindex":
        return "%s[%s%d]" % (show(t[1], d), "-" if t[3] else "", t[2])
    if k == "downcast":
        return "(%s as %s)" % (show(t[1], d), t[2])
    if k == "discr":
        return "discr(%s)" % show(t[1], d)
    if k == "len":
        return "len(%s)" % show(t[1], d)
    if k == "aggr":
        return "%s{%s}" % (t[1], ", ".join(show(a, d) for a in t[2]))
    if k == "var":
        return "var_%d" % t[1]
    if k == "try":
        return "%s?" % show(t[1], d)
    if k == "mut":
        return "mut(%s)" % show(t[2], d)
    if k == "carg":
        return "carg%d" % t[1]
    return str(t)


# ---------------------------------------------------------------------- private data helpers
_HELPER = {}


def _plain_ty(ty, depth=0):
    k = ty.get("k")
    if k in ("int", "bool", "char", "float"):
        return True
    if k == "ref":
        return not ty.get("m") and _plain_ty(ty["t"], depth + 1)
    if k in ("slice", "array"):
        return _plain_ty(ty["t"], depth + 1) if "t" in ty else False
    if k == "str":
        return True
    if k == "tuple":
        return all(_plain_ty(x, depth + 1) for x in ty.get("ts", ty.get("a", []))) if (ty.get("ts") or ty.get("a")) else False
    if k == "adt" and ty.get("p") in ("std::vec::Vec", "alloc::vec::Vec", "std::option::Option", "core::option::Option") and ty.get("a") and depth < 3:
        return _plain_ty(ty["a"][0], depth + 1)       # a container of plain data (`fn calibrated(..) -> Vec<f64>`)
    return False


def helper_ret(prog, callee):
    """return term of a private, straight-line free function over plain data (`fn le32(s: &[u8], o: usize) -> u32`),
    else None.  Such helpers are inlined at term construction so that extracting one does not hide provenance."""
    if callee in _HELPER:
        return _HELPER[callee]
    _HELPER[callee] = None
    b = prog.bodies.get(callee)
    if b is None or b.kind not in ("Fn", "AssocFn") or b.j.get("is_pub") or b.j.get("impl_trait") or b.argc == 0:
        return None
    # the result is plain data; the parameters are plain data or shared references (`&self` of a private method):
    # nothing the helper could modify
    def _param_ok(ty):
        if _plain_ty(ty):
            return True
        if ty.get("k") == "ref":
            return not ty.get("m")
        return ty.get("k") in ("adt", "tuple")        # by value: the caller's copy is not affected
    if not _plain_ty(b.locals[0]["ty"]) or not all(_param_ok(b.locals[i]["ty"]) for i in range(1, b.argc + 1)):
        return None
    if b.back_edges() or any(blk["t"]["k"] == "switch" for i, blk in enumerate(b.blocks) if i in b.reachable() and not blk["cleanup"]):
        return None
    tm = Terms(b, prog)
    rets = [tm.rvalue(rv) if si != "t" else tm.call_term(rv, bi) for (bi, si, rv) in tm.defs.whole[0]]
    if len(rets) != 1 or tm.defs.partial[0]:
        return None
    r = rets[0]
    if any(x[0] in ("var", "mut", "loopval", "uninit", "rv?") for x in walk(r)):
        return None
    _HELPER[callee] = r
    return r


def _subst_params(t, args):
    if not isinstance(t, tuple) or not t or not isinstance(t[0], str):
        return t
    if t[0] == "param":
        return args[t[1] - 1] if 1 <= t[1] <= len(args) else t
    if t[0] == "call":
        site = t[3] if isinstance(t[3], tuple) else ("cl", t[3])
        return ("call", t[1], tuple(_subst_params(y, args) if isinstance(y, tuple) else y for y in t[2]), site)
    out = [t[0]]
    for x in t[1:]:
        if isinstance(x, tuple) and x and isinstance(x[0], str):
            out.append(_subst_params(x, args))
        elif isinstance(x, tuple):
            out.append(tuple(_subst_params(y, args) if isinstance(y, tuple) else y for y in x))
        else:
            out.append(x)
    return tuple(out)


def inline_helper(prog, callee, args):
    r = helper_ret(prog, callee)
    if r is None:
        return None
    return _subst_params(r, args)


# ---------------------------------------------------------------------- private helpers with `?` early returns
_TRY_HELPER = {}


def try_helper_summary(prog, callee):
    """(ok payload term, [tried terms]) for a private free function that is straight-line except for `?` early
    returns and ends in a single `Ok(payload)`: `helper(args)?` in a caller then means "every tried term is Ok" and
    evaluates to the payload with the arguments substituted.  None if the function has any other branching."""
    if callee in _TRY_HELPER:
        return _TRY_HELPER[callee]
    _TRY_HELPER[callee] = None
    b = prog.bodies.get(callee) if prog is not None else None
    if b is None or b.kind != "Fn" or b.j.get("is_pub") or b.j.get("impl_trait") or b.argc == 0 or b.back_edges():
        return None
    rty = b.locals[0]["ty"]
    if not (rty.get("k") == "adt" and rty.get("p") == "std::result::Result"):
        return None
    tm = Terms(b, prog)
    tried = []
    reach = b.reachable()
    for i, blk in enumerate(b.blocks):
        if i not in reach or blk["cleanup"]:
            continue
        t = blk["t"]
        if t["k"] == "switch":
            d = tm.operand(t["d"])
            while d[0] in ("ref", "deref"):
                d = d[1]
            if not (d[0] == "discr"):
                return None
            inner = d[1]
            while inner[0] in ("ref", "deref"):
                inner = inner[1]
            if not (inner[0] == "call" and short(inner[1]) == "Try::branch" and len(inner[2]) == 1):
                return None
            tried.append(inner[2][0])
    oks = []
    for (bi, si, rv) in tm.defs.whole[0]:
        r = tm.rvalue(rv) if si != "t" else tm.call_term(rv, bi)
        if r[0] == "aggr" and r[1].endswith("Result::Ok") and len(r[2]) == 1:
            oks.append(r[2][0])
        elif r[0] == "call" and short(r[1]) == "FromResidual::from_residual":
            continue
        else:
            return None
    if len(oks) != 1 or tm.defs.partial[0] or not tried:
        return None
    payload = oks[0]
    if any(x[0] in ("var", "loopval", "uninit", "rv?") for x in walk(payload)):
        return None
    _TRY_HELPER[callee] = (payload, tried)
    return _TRY_HELPER[callee]


def subst_params(t, args):
    return _subst_params(t, args)
