"""`./agv controls`: soundness / precision controls of the panic-obligation engine.

A scratch copy of /repo gets one extra module (selftest/controls/verif_controls.rs) with small functions whose
verdict is known from their name: `*_panics` must keep at least one obligation OPEN (soundness), `*_safe` should be
fully discharged (precision; reported, a miss is a weakness not an unsoundness)."""
import os
import shutil
import subprocess
import sys
import tempfile

from . import build


def run(quiet=False):
    scratch = tempfile.mkdtemp(prefix="agv-controls-", dir="/tmp")
    try:
        repo = os.path.join(scratch, "repo")
        shutil.copytree(build.REPO, repo, ignore=shutil.ignore_patterns("target", ".git"))
        shutil.copy(os.path.join(build.VERIF, "selftest", "controls", "verif_controls.rs"), os.path.join(repo, "detector", "src", "verif_controls.rs"))
        with open(os.path.join(repo, "detector", "src", "lib.rs"), "a") as fh:
            fh.write("\npub mod verif_controls;\n")
        env = dict(os.environ, AGV_REPO=repo)
        code = ("import sys; sys.path.insert(0, %r)\n"
                "from agvlib import facts, oblig, panicfree, report\n"
                "prog = facts.load()\n"
                "bad = weak = n = 0\n"
                "rules = {'assert': 'X.R1', 'call': 'X.R2', 'panic': 'X.R3', 'loop': 'X.R4', 'callee': 'X.R5'}\n"
                "for p, b in sorted(prog.bodies.items()):\n"
                "    if '::verif_controls::' not in p or b.kind == 'Closure' or 'promoted' in p: continue\n"
                "    name = p.split('::')[-1]\n"
                "    if not name.endswith(('_panics', '_safe')): continue\n"
                "    bodies = sorted(q for q in prog.closure([p]) if '::verif_controls::' in q and 'promoted' not in q)\n"
                "    res = report.Result('X', 'proof')\n"
                "    for r in rules.values(): res.rule(r, '', 0)\n"
                "    panicfree.run_scope(prog, res, panicfree.Scope(prog, bodies, []), rules, ())\n"
                "    opens = ['%%s' %% v.site for v in res.violations]\n"
                "    n += 1\n"
                "    if name.endswith('_panics') and not opens:\n"
                "        bad += 1; print('UNSOUND  %%s: all obligations discharged although the function can panic' %% name)\n"
                "    elif name.endswith('_safe') and opens:\n"
                "        weak += 1; print('weak     %%s: %%s' %% (name, opens[:3]))\n"
                "    else:\n"
                "        print('ok       %%s %%s' %% (name, opens[:2] if opens else ''))\n"
                "print('%%d controls, %%d unsound, %%d imprecise' %% (n, bad, weak))\n"
                "sys.exit(1 if bad else 0)\n") % build.VERIF
        p = subprocess.run([sys.executable, "-c", code], env=env, stdout=subprocess.PIPE, stderr=subprocess.STDOUT, text=True)
        if not quiet:
            sys.stdout.write(p.stdout)
        unsound = [l.split()[1].rstrip(":") for l in p.stdout.splitlines() if l.startswith("UNSOUND")]
        weak = [l.split()[1].rstrip(":") for l in p.stdout.splitlines() if l.startswith("weak")]
        n = len([l for l in p.stdout.splitlines() if l.startswith(("ok ", "UNSOUND", "weak"))])
        if p.returncode not in (0, 1) or n == 0:
            raise RuntimeError("controls run failed: %s" % p.stdout[-400:])
        return n, unsound, weak
    finally:
        shutil.rmtree(scratch, ignore_errors=True)


def main(argv):
    n, unsound, weak = run()
    return 1 if unsound else 0
