"""Finite-domain evaluation of extracted path formulas.

Some tables of the repository are computed by a small loop nest over constant ranges (`INV_PADS_0`: for after in 0..=3,
for channel in 1..=72, insert (key(after, channel), value(after, channel))).  The loop body is taken apart statically
into its acyclic paths — guard atoms and the polynomials of the inserted key/value per path — and those formulas are
evaluated for every point of the (finite, literal) iteration domain.  This is the same technique as
`rules.common.int_conversion_ranges`: evaluation of a formula read off the program, not execution of the program.
"""
from .guards import analysis
from .sym import Sym, Poly, loop_iteration_paths, path_atoms
from .terms import strip, short, cname, unmut


def eval_poly(sy, p, env, depth=0):
    """value of Poly p under env {symbol: int}; handles rem/div/b2i symbols; None if some symbol is unknown"""
    if depth > 6:
        return None
    tot = 0
    for mono, c in p.m.items():
        term = c
        for s in mono:
            if s in env:
                v = env[s]
            elif s in sy.divrem:
                kind, P, k = sy.divrem[s]
                pv = eval_poly(sy, P, env, depth + 1)
                if pv is None:
                    return None
                q, r = divmod(int(pv), k) if pv >= 0 else (-((-int(pv)) // k), -((-int(pv)) % k))
                v = r if kind == "rem" else q
            elif s in sy.opsyms:
                op, pa, pb, w = sy.opsyms[s]
                a, b = eval_poly(sy, pa, env, depth + 1), eval_poly(sy, pb, env, depth + 1)
                if a is None or b is None or a != int(a) or b != int(b):
                    return None
                a, b = int(a), int(b)
                if op in ("BitAnd", "BitOr", "BitXor", "Shl", "Shr"):
                    if a < 0 or b < 0:
                        return None
                    v = {"BitAnd": a & b, "BitOr": a | b, "BitXor": a ^ b, "Shr": a >> b, "Shl": a << b}[op]
                    if op == "Shl":
                        if w is None:
                            return None
                        v &= (1 << w) - 1
                elif op == "SatSub":
                    v = max(0, a - b)
                elif op == "WrapSub":
                    if w is None:
                        return None
                    v = (a - b) % (1 << w)
                else:
                    return None
            elif s in sy.b2i:
                op, pa, pb = sy.b2i[s]
                a, b = eval_poly(sy, pa, env, depth + 1), eval_poly(sy, pb, env, depth + 1)
                if a is None or b is None:
                    return None
                v = int({"Lt": a < b, "Le": a <= b, "Gt": a > b, "Ge": a >= b, "Eq": a == b, "Ne": a != b}[op])
            else:
                return None
            term = term * v
        tot += term
    return tot


def _range_of_next(sy, t):
    """(symbol name, lo, hi) if t = (next(mut(range)) as Some).0 over a constant range"""
    x = unmut(t)
    if not (x[0] == "field" and x[2] == 0 and unmut(x[1])[0] == "downcast"):
        return None
    nx = unmut(unmut(x[1])[1])
    if not (nx[0] == "call" and short(nx[1]) == "Iterator::next"):
        return None
    it = unmut(nx[2][0])
    while it[0] == "call" and short(it[1]) == "IntoIterator::into_iter" and it[2]:
        it = unmut(it[2][0])
    if it[0] == "call" and short(it[1]) == "RangeInclusive::<Idx>::new" and len(it[2]) == 2:
        lo, hi = sy.poly(it[2][0]), sy.poly(it[2][1])
        if lo is not None and hi is not None and lo.is_const() and hi.is_const():
            return (sy.name(x), int(lo.const_value()), int(hi.const_value()))
    if it[0] == "aggr" and it[1].endswith("Range::Range") and len(it[2]) == 2:
        lo, hi = sy.poly(it[2][0]), sy.poly(it[2][1])
        if lo is not None and hi is not None and lo.is_const() and hi.is_const():
            return (sy.name(x), int(lo.const_value()), int(hi.const_value()) - 1)
    return None


def nested_loop_table(prog, body):
    """For a body that fills a map in two nested constant-range loops with a single insert(key, value):
    ({(i, j): (key ints..., value ints...)}, problems).  key/value integers are the arguments of the `try_from(..)`
    conversions that build them (so a value is a tuple of ints)."""
    an = analysis(prog, body, positions=True)
    sy = Sym(prog, an, slice_param=99)
    ins = [(bb, t) for bb, t in body.calls() if short(cname(t)).endswith("::insert")]
    if len(ins) != 1:
        return None, ["expected one insert, found %d" % len(ins)]
    ibb, it = ins[0]
    be = sorted(body.back_edges(), key=lambda e: len(body.natural_loop(e[0], e[1])))
    if len(be) != 2 or ibb not in body.natural_loop(*be[0]):
        return None, ["expected two nested loops around the insert"]
    inner, outer = be
    paths = [p for p in (loop_iteration_paths(an, inner[1]) or []) if ibb in p[1]]
    if not paths:
        return None, ["no iteration path reaches the insert"]
    # loop variables: the two `next()` results that the atoms / values mention
    vars_ = {}
    for bb, t in body.calls():
        if short(cname(t)) == "Iterator::next":
            an.terms._pos = (bb, "t")
            res_t = ("field", ("downcast", an.terms.call_term(t, bb), "Some"), 0)
            r = _range_of_next(sy, res_t)
            if r:
                vars_[r[0]] = (r[1], r[2], bb in body.natural_loop(*inner))
    if len(vars_) != 2:
        return None, ["expected two constant-range loop variables, found %d" % len(vars_)]
    (n_out, (olo, ohi, _)), = [(n, v) for n, v in vars_.items() if not v[2]] or [(None, (0, -1, 0))]
    (n_in, (ilo, ihi, _)), = [(n, v) for n, v in vars_.items() if v[2]] or [(None, (0, -1, 0))]
    if n_out is None or n_in is None:
        return None, ["could not tell the outer from the inner loop variable"]

    def conv_args(term, out):
        """integer polynomials fed to the conversions that build a key/value aggregate"""
        x = unmut(term)
        if x[0] == "aggr":
            for o in x[2]:
                conv_args(o, out)
            return
        if x[0] == "call" and short(x[1]) in ("Result::<T, E>::unwrap", "Result::<T, E>::expect") and x[2]:
            inner_ = unmut(x[2][0])
            if inner_[0] == "call" and inner_[2]:
                out.append((sy.call_sig(inner_), sy.poly(inner_[2][0])))
                return
        out.append((None, sy.poly(x)))
    table, problems = {}, []
    per_path = []
    for path in paths:
        ats = path_atoms(sy, path)
        sy.set_path(path[1])
        an.terms._pos = (ibb, "t")
        k_args, v_args = [], []
        conv_args(an.terms.operand(it["args"][1]), k_args)
        conv_args(an.terms.operand(it["args"][2]), v_args)
        sy.set_path(None)
        per_path.append((ats, k_args, v_args))
    for i in range(olo, ohi + 1):
        for j in range(ilo, ihi + 1):
            env = {n_out: i, n_in: j}
            hits = []
            for ats, k_args, v_args in per_path:
                ok = True
                for a in ats:
                    if a[0] == "rel":
                        v = eval_poly(sy, a[2], env)
                        if v is None:
                            ok = None
                            break
                        if not ((a[3] == ">=" and v >= 0) or (a[3] == "==" and v == 0) or (a[3] == "!=" and v != 0)):
                            ok = False
                            break
                    elif a[0] in ("some", "ok"):
                        continue
                    elif a[0] == "false":
                        ok = False
                        break
                    else:
                        ok = None
                        break
                if ok is None:
                    problems.append("guard of an iteration path cannot be evaluated at (%d, %d)" % (i, j))
                    break
                if ok:
                    vals = []
                    for conv, p in k_args + v_args:
                        v = eval_poly(sy, p, env) if p is not None else None
                        if v is None:
                            problems.append("inserted key/value cannot be evaluated at (%d, %d)" % (i, j))
                            vals = None
                            break
                        vals.append(int(v))
                    if vals is not None:
                        hits.append((tuple(vals[:len(k_args)]), tuple(vals[len(k_args):])))
            hs = set(hits)
            if len(hs) == 1:
                table[(i, j)] = hits[0]
            elif len(hs) > 1:
                problems.append("several iteration paths with different values are feasible at (%d, %d)" % (i, j))
            if len(problems) > 5:
                return table, problems
    convs = {"key": [c for c, _ in per_path[0][1]], "value": [c for c, _ in per_path[0][2]]}
    return table, problems, convs, (olo, ohi, ilo, ihi)
