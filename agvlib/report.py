"""Evidence files, violation reports, known findings."""
import hashlib
import json
import os
import time

from . import build

EVID = os.environ.get("AGV_EVID") or os.path.join(build.VERIF, "evidence")
REPORTS = os.path.join(EVID, "reports")
KNOWN = os.path.join(build.VERIF, "known_findings.json")


class Violation:
    def __init__(self, rule, fn, site, what, where="", detail=None, kind="violation"):
        self.rule = rule      # e.g. "C06.R2"
        self.fn = fn          # def-path of the function (or table / item)
        self.site = site      # site descriptor without line numbers
        self.what = what      # one-line human description
        self.where = where    # file:line (report only, never part of the key)
        self.detail = detail or {}
        self.kind = kind

    def key(self):
        return "%s|%s|%s" % (self.rule, self.fn, self.site)

    def to_json(self):
        return {"rule": self.rule, "fn": self.fn, "site": self.site, "what": self.what, "where": self.where,
                "kind": self.kind, "key": self.key(), "detail": self.detail}


class Result:
    """Accumulates what a rule pack did."""

    def __init__(self, prop, level):
        self.prop = prop
        self.level = level
        self.violations = []
        self.rules = {}         # id -> {desc, instances, floor}
        self.obligations = 0
        self.discharged = 0
        self.by_class = {}
        self.samples = []
        self.functions = set()
        self.call_sites = 0
        self.trusted = []
        self.assumptions = []
        self.explanation = ""
        self.extra = {}
        self.undecided = []

    def rule(self, rid, desc, floor=1):
        self.rules.setdefault(rid, {"desc": desc, "instances": 0, "floor": floor})
        return rid

    def hit(self, rid, n=1):
        self.rules[rid]["instances"] += n

    def oblige(self, ok, cls="auto"):
        self.obligations += 1
        if ok:
            self.discharged += 1
            self.by_class[cls] = self.by_class.get(cls, 0) + 1

    def violate(self, rule, fn, site, what, where="", detail=None, kind="violation"):
        self.violations.append(Violation(rule, fn, site, what, where, detail, kind))

    def sample(self, s):
        if len(self.samples) < 12:
            self.samples.append(s)

    def check_floors(self):
        for rid, r in self.rules.items():
            if r["instances"] < r["floor"]:
                self.violate(rid, "-", "floor", "rule %s matched %d instance(s), below the confirmed floor %d (%s) — anchor moved or rule no longer sees the code" % (
                    rid, r["instances"], r["floor"], r["desc"]), kind="anchor-missing")


def load_known():
    if not os.path.exists(KNOWN):
        return []
    with open(KNOWN) as fh:
        return json.load(fh).get("findings", [])


def finish(res, tier, t0, checker_cmd):
    """Write evidence, print VIOLATION / KNOWN-FINDING lines, return exit code."""
    res.check_floors()
    os.makedirs(REPORTS, exist_ok=True)
    # reports are per-run artifacts: drop those of earlier runs of this property
    for f in os.listdir(REPORTS):
        if f.startswith(res.prop + "-") and f.endswith(".json"):
            try:
                os.remove(os.path.join(REPORTS, f))
            except OSError:
                pass
    known = load_known()
    open_keys = {k["key"]: k for k in known if k.get("property") == res.prop and k.get("status") == "open"}
    new = []
    seen_known = []
    seen_keys = set()
    for v in res.violations:
        if v.key() in seen_keys:
            continue
        seen_keys.add(v.key())
        if v.key() in open_keys:
            seen_known.append(v)
        else:
            new.append(v)
    for v in seen_known:
        print("KNOWN-FINDING: property=%s %s [%s]" % (res.prop, open_keys[v.key()].get("what", v.what), v.key()))
    rc = 0
    replay_paths = []
    for v in new:
        h = hashlib.sha1(v.key().encode()).hexdigest()[:10]
        path = os.path.join(REPORTS, "%s-%s.json" % (res.prop, h))
        with open(path, "w") as fh:
            json.dump({"property": res.prop, "tier": tier, **v.to_json()}, fh, indent=1)
        print("  %s %s" % (v.where, v.what))
        print("    key: %s" % v.key())
        print("VIOLATION property=%s replay=%s" % (res.prop, path))
        replay_paths.append(path)
        rc = 1
    wall = time.time() - t0
    seed = int(os.environ.get("VERIF_SEED", "0") or 0)
    cov = {
        "rules": {rid: r for rid, r in sorted(res.rules.items())},
        "rule_instances": sum(r["instances"] for r in res.rules.values()),
        "functions_analysed": len(res.functions),
        "call_sites": res.call_sites,
        "samples": res.samples or [{"note": "no obligations sampled"}],
        "trusted_base": res.trusted,
        "checker_cmd": checker_cmd,
        "known_findings_matched": [v.key() for v in seen_known],
        "undecided_clauses": res.undecided,
    }
    cov.update(res.extra)
    if res.level == "proof":
        cov["obligations"] = res.obligations
        cov["discharged"] = res.discharged
        cov["discharge_classes"] = res.by_class
        if res.explanation:
            cov["explanation"] = res.explanation
    else:
        cov["explanation"] = res.explanation or "structural rules over the type-checked program"
        cov["obligations"] = res.obligations
        cov["discharged"] = res.discharged
    ev = {
        "property_id": res.prop,
        "tier": tier,
        "seed": seed,
        "level": res.level,
        "coverage": cov,
        "assumptions": res.assumptions,
        "wall_s": round(wall, 2),
        "violations": len(new),
    }
    with open(os.path.join(EVID, "%s.json" % res.prop), "w") as fh:
        json.dump(ev, fh, indent=1, sort_keys=False)
    total = sum(r["instances"] for r in res.rules.values())
    print("%s %s: %d rule(s), %d instance(s), %d obligation(s) / %d discharged, %d function(s); %d new violation(s), %d known; %.1fs" % (
        res.prop, tier, len(res.rules), total, res.obligations, res.discharged, len(res.functions), len(new), len(seen_known), wall))
    return rc
