"""Pretty printer for the MIR facts (debugging / explain)."""


def ty(t):
    k = t["k"]
    if k == "int":
        if t.get("ptr"):
            return "isize" if t["s"] else "usize"
        return ("i" if t["s"] else "u") + str(t["w"])
    if k in ("bool", "char", "str", "never"):
        return {"never": "!"}.get(k, k)
    if k == "float":
        return "f%d" % t["w"]
    if k == "ref":
        return "&" + ("mut " if t["m"] else "") + ty(t["t"])
    if k == "ptr":
        return "*" + ("mut " if t["m"] else "const ") + ty(t["t"])
    if k == "slice":
        return "[" + ty(t["t"]) + "]"
    if k == "array":
        return "[%s; %s]" % (ty(t["t"]), t["n"])
    if k == "tuple":
        return "(" + ", ".join(ty(x) for x in t["ts"]) + ")"
    if k == "adt":
        return t["s"]
    if k == "closure":
        return "{closure %s}" % t["p"]
    if k == "fndef":
        return "fn{%s}" % t["s"]
    return t.get("s", k)


def place(p):
    s = "_%d" % p["l"]
    for e in p["pr"]:
        k = e["k"]
        if k == "deref":
            s = "(*%s)" % s
        elif k == "field":
            s = "%s.%d" % (s, e["i"])
        elif k == "index":
            s = "%s[_%d]" % (s, e["l"])
        elif k == "cindex":
            s = "%s[%s%d of %d]" % (s, "-" if e["end"] else "", e["off"], e["min"])
        elif k == "subslice":
            s = "%s[%d..%s%d]" % (s, e["from"], "-" if e["end"] else "", e["to"])
        elif k == "downcast":
            s = "(%s as %s)" % (s, e["name"])
        else:
            s = "%s.?%s" % (s, k)
    return s


def operand(o):
    k = o["k"]
    if k == "copy":
        return place(o["p"])
    if k == "move":
        return "move " + place(o["p"])
    if k == "const":
        if "fn" in o:
            return "fn:" + (o.get("fn_resolved") or o["fn"])
        if "v" in o:
            return "const %s_%s" % (o["v"], ty(o["ty"]))
        if "str" in o:
            return "const %r" % o["str"]
        if "bytes" in o:
            return "const b%r" % bytes(o["bytes"])
        if "static" in o:
            return "const &static %s" % o["static"]
        if "def" in o:
            return "const {%s}" % o["def"]
        if "promoted" in o:
            return "const promoted[%d]%s" % (o["promoted"], (" mem=%s" % o["mem"]) if "mem" in o else "")
        return "const <%s: %s>" % (o.get("dbg", "?"), ty(o["ty"]))
    return "?" + k


def rvalue(rv):
    k = rv["k"]
    if k == "use":
        return operand(rv["o"])
    if k == "repeat":
        return "[%s; %s]" % (operand(rv["o"]), rv["n"])
    if k == "ref":
        return "&%s%s" % ("mut " if rv["m"] else "", place(rv["p"]))
    if k == "rawptr":
        return "&raw " + place(rv["p"])
    if k == "cast":
        return "%s as %s (%s)" % (operand(rv["o"]), ty(rv["ty"]), rv["ck"])
    if k == "binop":
        return "%s(%s, %s)" % (rv["op"], operand(rv["a"]), operand(rv["b"]))
    if k == "unop":
        return "%s(%s)" % (rv["op"], operand(rv["o"]))
    if k == "discr":
        return "discriminant(%s)" % place(rv["p"])
    if k == "aggr":
        ak = rv["ak"]
        ops = ", ".join(operand(o) for o in rv["ops"])
        if ak == "adt":
            return "%s::%s { %s }" % (rv["p"], rv["vname"], ops)
        if ak == "closure":
            return "closure %s [%s]" % (rv["p"], ops)
        if ak == "array":
            return "[%s]" % ops
        return "(%s)" % ops
    if k == "copyderef":
        return "deref_copy " + place(rv["p"])
    return "?" + k + " " + rv.get("dbg", "")


def stmt(s):
    if s["k"] == "assign":
        return "%s = %s" % (place(s["p"]), rvalue(s["rv"]))
    if s["k"] == "setdiscr":
        return "discriminant(%s) = %d" % (place(s["p"]), s["v"])
    return s["k"] + " " + s.get("dbg", "")


def term(t):
    k = t["k"]
    if k == "goto":
        return "goto -> bb%d" % t["t"]
    if k == "switch":
        return "switchInt(%s) -> [%s, otherwise: bb%d]" % (
            operand(t["d"]), ", ".join("%s: bb%d" % (v, b) for v, b in t["vs"]), t["otherwise"])
    if k == "return":
        return "return"
    if k == "drop":
        return "drop(%s) -> bb%d" % (place(t["p"]), t["t"])
    if k == "assert":
        return "assert(%s == %s, %s(%s)) -> bb%d" % (
            operand(t["cond"]), t["expected"], t["mk"], ", ".join(operand(o) for o in t["mops"]), t["t"])
    if k == "call":
        callee = t.get("resolved") or t.get("callee") or ("<indirect %s>" % operand(t["func"]))
        tg = ("bb%d" % t["t"]) if t["t"] is not None else "!"
        return "%s = %s(%s) -> %s" % (place(t["dest"]), callee, ", ".join(operand(a) for a in t["args"]), tg)
    return k


def body(b, show_cleanup=False):
    out = []
    out.append("fn %s  [%s]  %s:%d  argc=%d" % (b.path, b.kind, b.file, b.line, b.argc))
    for i, l in enumerate(b.locals):
        out.append("  let _%d: %s%s" % (i, ty(l["ty"]), ("  // " + l["name"]) if l.get("name") else ""))
    reach = b.reachable()
    for i, blk in enumerate(b.blocks):
        if i not in reach:
            continue
        if blk["cleanup"] and not show_cleanup:
            continue
        out.append("  bb%d:%s" % (i, " (cleanup)" if blk["cleanup"] else ""))
        for s in blk["s"]:
            out.append("    %s" % stmt(s))
        ln = blk["t"].get("line")
        out.append("    %s%s" % (term(blk["t"]), ("   // L%s" % ln) if ln else ""))
    return "\n".join(out)
