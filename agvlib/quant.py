"""Quantifier normal form of the checks a function makes over a sequence.

`s.iter().position(P).is_none()`, `!s.iter().any(P)`, `s.iter().all(|x| !P(x))`, `s.iter().find(P)` being `None`,
`s.iter().map(f).find(Q)` being `None`, and `for x in s { if P(x) { return Err(..) } }` all state the same fact on the
paths that go on: *for every element x of s, not P(x)*.  This module extracts those facts for a target block (usually
an `Ok(..)` site) in one vocabulary, so that a rule can ask "is every chunk's board id compared with the first
chunk's?" without caring which spelling the code uses.

A fact is `Forall(seq, enum, atoms)`:
  seq    (base name, lo, hi): elements base[lo..hi] (lo/hi canonical polynomial strings, hi None = to the end)
  enum   True when the predicate also sees the element's index (`enumerate()`), named `i`
  atoms  frozenset of canonical atom strings over the element `x` (and `i`) that hold for every element
"""
from .guards import as_cmp, closure_info, closure_ret, subst_upvars, truth_of
from .sym import Poly, atom_str, forward_paths, loop_iteration_paths, path_atoms
from .terms import strip, unmut, short, cname, walk

ELEM = ("param", 90)          # placeholder for the element inside predicate terms


class Forall:
    def __init__(self, seq, enum, atoms, site, how, base=None):
        self.seq, self.enum, self.atoms, self.site, self.how = seq, enum, frozenset(atoms), site, how
        self.base = base          # term of the underlying sequence

    def __repr__(self):
        return "forall %s%s in %s[%s..%s]: %s  (%s @bb%s)" % ("(i, x)" if self.enum else "x", "", self.seq[0], self.seq[1], self.seq[2] if self.seq[2] is not None else "",
                                                             " && ".join(sorted(self.atoms)), self.how, self.site)


def _subst(t, what, by):
    if t == what:
        return by
    if not isinstance(t, tuple) or not t or not isinstance(t[0], str):
        return t
    out = [t[0]]
    for x in t[1:]:
        if isinstance(x, tuple) and x and isinstance(x[0], str):
            out.append(_subst(x, what, by))
        elif isinstance(x, tuple):
            out.append(tuple(_subst(y, what, by) if isinstance(y, tuple) else y for y in x))
        else:
            out.append(x)
    return tuple(out)


def parse_seq(prog, an, sy, it):
    """iterator term -> (base term, lo Poly, hi Poly|None, enum, [element maps outermost last]) or None"""
    lo, hi, enum, maps = Poly.const(0), None, False, []
    t = unmut(it)
    ops = []
    while True:
        if t[0] == "call":
            s = short(t[1])
            a = t[2]
            if s in ("<impl [T]>::iter", "Vec::<T, A>::iter", "IntoIterator::into_iter", "<impl [T]>::iter_mut") and len(a) == 1:
                t = unmut(a[0])
                continue
            if s in ("Iterator::rev", "Iterator::by_ref", "Iterator::copied", "Iterator::cloned", "Iterator::peekable") and len(a) == 1:
                t = unmut(a[0])
                continue
            if s == "Iterator::enumerate" and len(a) == 1:
                ops.append(("enum",))
                t = unmut(a[0])
                continue
            if s in ("Iterator::take", "Iterator::skip") and len(a) == 2:
                p = sy.poly(a[1])
                if p is None:
                    return None
                ops.append((s.split("::")[1], p))
                t = unmut(a[0])
                continue
            if s == "Iterator::map" and len(a) == 2:
                ops.append(("map", a[1]))
                t = unmut(a[0])
                continue
            if s in ("Deref::deref", "DerefMut::deref_mut", "Vec::<T, A>::as_slice", "AsRef::as_ref") and len(a) == 1:
                t = unmut(a[0])
                continue
            if s in ("Index::index", "IndexMut::index_mut") and len(a) == 2:
                r = strip(a[1])
                if r[0] == "aggr" and r[1].endswith("RangeTo::RangeTo") and len(r[2]) == 1:
                    p = sy.poly(r[2][0])
                    if p is None:
                        return None
                    ops.append(("take", p))
                    t = unmut(a[0])
                    continue
                if r[0] == "aggr" and r[1].endswith("RangeFrom::RangeFrom") and len(r[2]) == 1:
                    p = sy.poly(r[2][0])
                    if p is None:
                        return None
                    ops.append(("skip", p))
                    t = unmut(a[0])
                    continue
                if r[0] == "aggr" and r[1].endswith("Range::Range") and len(r[2]) == 2:
                    p0, p1 = sy.poly(r[2][0]), sy.poly(r[2][1])
                    if p0 is None or p1 is None:
                        return None
                    ops.append(("take", p1))     # innermost first when replayed below: take(hi) then skip(lo)
                    ops.append(("skip", p0))
                    # order matters: s[a..b] = take b, then skip a
                    ops[-2], ops[-1] = ops[-1], ops[-2]
                    t = unmut(a[0])
                    continue
                if r[0] == "aggr" and r[1].endswith("RangeFull::RangeFull"):
                    t = unmut(a[0])
                    continue
        break
    # `s.split_last().unwrap().1` is s[..len-1]; `s.split_first().unwrap().1` is s[1..]
    if t[0] == "field" and t[2] == 1:
        u = unmut(t[1])
        if u[0] == "call" and short(u[1]) in ("Option::<T>::unwrap", "Option::<T>::expect") and u[2]:
            c = unmut(u[2][0])
            if c[0] == "call" and short(c[1]) in ("<impl [T]>::split_last", "<impl [T]>::split_first") and c[2]:
                inner = unmut(c[2][0])
                while inner[0] == "call" and short(inner[1]) in ("Deref::deref", "Vec::<T, A>::as_slice") and inner[2]:
                    inner = unmut(inner[2][0])
                ln = sy.poly(("call", "core::slice::<impl [T]>::len", (inner,), ("q", 1)))
                if ln is not None:
                    if short(c[1]).endswith("split_last"):
                        ops.append(("take", ln - Poly.const(1)))
                    else:
                        ops.append(("skip", Poly.const(1)))
                    t = inner
    base = t
    # replay from the innermost adapter outwards
    for op in reversed(ops):
        if op[0] == "take":
            n = lo + op[1] if not (lo == Poly.const(0)) else op[1]
            hi = n if hi is None else None if str(hi) != str(n) else hi
            if hi is None and n is not None:
                hi = n
        elif op[0] == "skip":
            if enum:
                return None       # indices no longer line up with positions
            lo = lo + op[1]
        elif op[0] == "enum":
            if not (lo == Poly.const(0)):
                return None
            enum = True
        elif op[0] == "map":
            if enum:
                return None
            maps.append(op[1])
    return base, lo, hi, enum, maps


def _apply_maps(prog, an, elem, maps):
    """element seen by the consumer after the `map(f)` adapters: f_n(..f_1(elem))"""
    cur = elem
    for f in maps:
        f0 = strip(f)
        if f0[0] == "fn":
            cur = ("call", f0[1], (cur,), ("q", 0))
            continue
        ci = closure_info(prog, an, f0)
        if not ci:
            return None
        rets = closure_ret(prog, ci[0])
        if len(rets) != 1:
            return None
        body_ = subst_upvars(rets[0], ci[1])
        cur = _subst(body_, ("carg", 0), cur)
    return cur


def _names(sy, atoms, enum, elem_name):
    from .sym import rel_atom

    def ren(s):
        if enum:
            s = s.replace(elem_name + ".0", "i").replace(elem_name + ".1", "x")
        return s.replace(elem_name, "x")
    out = set()
    for a in atoms:
        if a[0] == "rel" and a[3] in ("==", "!="):
            # rename inside the polynomial and take the canonical sign again (it depends on the symbol names)
            m2 = {}
            for mono, c in a[2].m.items():
                k2 = tuple(sorted(ren(x) for x in mono))
                m2[k2] = m2.get(k2, 0) + c
            try:
                out.add(rel_atom(Poly({k: v for k, v in m2.items() if v != 0}), a[3])[1])
                continue
            except Exception:
                pass
        out.add(ren(atom_str(a)))
    return out


def _seq_key(sy, base, lo, hi):
    return (sy.name(base), str(lo), None if hi is None else str(hi))


def _set_elem_type(sy, base, enum):
    """type of the element placeholder (float comparisons must not be normalised as integer ones)"""
    try:
        bty = sy.type_of(base)
        ety = None
        if bty is not None and bty.get("k") in ("slice", "array"):
            ety = bty.get("t")
        elif bty is not None and bty.get("k") == "adt" and bty.get("a"):
            ety = bty["a"][0]
        if ety is not None and enum:
            ety = {"k": "tuple", "ts": [{"k": "int", "w": 64, "s": False}, ety]}
        sy.placeholder_ty = {90: ety} if ety is not None else {}
    except Exception:
        sy.placeholder_ty = {}


def _predicate(prog, an, pterm, elem):
    """the predicate applied to `elem`: a closure body or a function item (`position(Chunk::is_end_of_message)`)"""
    p0 = strip(pterm)
    if p0[0] == "fn":
        return ("call", p0[1], (elem,), ("q", 2))
    ci = closure_info(prog, an, p0)
    if not ci:
        return None
    rets = closure_ret(prog, ci[0])
    if len(rets) != 1:
        return None
    return _subst(subst_upvars(rets[0], ci[1]), ("carg", 0), elem)


QUANT = {"Iterator::position": ("none", False), "Iterator::find": ("none", False), "Iterator::any": ("false", False),
         "Iterator::all": ("true", True), "Iterator::rposition": ("none", False)}


def call_outcome(an, bb, target):
    """what the target knows about the Option/bool returned by the call in block bb: 'none' | 'some' | 'true' | 'false' | None"""
    for (d, rel, vals) in an.atoms_at(target):
        d0 = strip(d)
        if d0[0] == "discr":
            inner = strip(d0[1])
            if inner[0] == "call" and inner[3] == bb:
                vs = sorted(vals)
                if (rel == "in" and vs == [0]) or (rel == "notin" and vs == [1]):
                    return "none"
                if (rel == "in" and vs == [1]) or (rel == "notin" and vs == [0]):
                    return "some"
        if d0[0] == "call" and short(d0[1]) in ("Option::<T>::is_none", "Option::<T>::is_some") and d0[2]:
            inner = strip(d0[2][0])
            if inner[0] == "call" and inner[3] == bb:
                tr = truth_of(rel, vals)
                if tr is not None:
                    return "none" if (short(d0[1]).endswith("is_none")) == tr else "some"
        if d0[0] == "call" and d0[3] == bb:
            tr = truth_of(rel, vals)
            if tr is not None:
                return "true" if tr else "false"
    return None


def forall_facts(prog, an, sy, target):
    """Forall facts that hold whenever control reaches block `target`"""
    body = an.body
    facts = []
    # ---- A: iterator consumers
    for bb, t in body.calls():
        s = short(cname(t))
        if s not in QUANT or len(t["args"]) != 2:
            continue
        want, positive = QUANT[s]
        oc = call_outcome(an, bb, target)
        if oc != want:
            continue
        an.terms._pos = (bb, "t")
        ps = parse_seq(prog, an, sy, an.terms.operand(t["args"][0]))
        if ps is None:
            continue
        base, lo, hi, enum, maps = ps
        elem = _apply_maps(prog, an, ELEM, maps)
        if elem is None:
            continue
        pred = _predicate(prog, an, an.terms.operand(t["args"][1]), elem)
        if pred is None:
            continue
        _set_elem_type(sy, base, enum)
        try:
            ats = sy.bool_atoms(pred, positive)
        except Exception:
            continue
        facts.append(Forall(_seq_key(sy, base, lo, hi), enum, _names(sy, ats, enum, "arg90"), bb, s, base))
    # ---- B: loops that leave through an early return when the predicate holds
    for (tail, head) in body.back_edges():
        loop = body.natural_loop(tail, head)
        if target in loop or not body.dominates(head, target):
            continue
        nexts = [(bb, t) for bb, t in body.calls() if bb in loop and short(cname(t)) == "Iterator::next"]
        if len(nexts) != 1:
            continue
        nbb, nt = nexts[0]
        if call_outcome(an, nbb, target) != "none":
            continue          # the target must lie behind the exhaustion edge (a `break` would skip elements)
        an.terms._pos = (nbb, "t")
        it = an.terms.operand(nt["args"][0])
        ps = parse_seq(prog, an, sy, it)
        if ps is None:
            continue
        base, lo, hi, enum, maps = ps
        # side effects inside the loop would make it more than a check: only calls without &mut of outer state are fine;
        # keep it simple — no stores to locals that are live after the loop other than the iterator itself
        paths = loop_iteration_paths(an, head)
        if not paths or len(paths) > 16:
            continue
        ncall = an.terms.call_term(nt, nbb)
        elem_t = ("field", ("downcast", ncall, "Some"), 0)
        ename = sy.name(elem_t)
        conts = []
        for path in paths:
            ats = path_atoms(sy, path)
            keep = [a for a in ats if not (a[0] in ("some", "none") and a[1] == sy.name(ncall))]
            conts.append(_names(sy, keep, enum, ename))
        if maps:
            continue
        common = set.intersection(*conts) if conts else set()
        if common:
            facts.append(Forall(_seq_key(sy, base, lo, hi), enum, common, head, "for-loop", base))
    return facts


# ---------------------------------------------------------------------------------------------------------------
# rewriting the rows of a guard/value table into the quantified vocabulary

def row_rewrites(prog, an, sy):
    """descriptions of the loops / iterator consumers of a body whose outcome atoms can be replaced:
    [{"none": atom string meaning 'all elements passed', "some": atom string meaning 'an element was singled out',
      "witness": name of that element in atoms/values, "seq": printable sequence, "forall": [atoms over x],
      "exists": [atoms over x that hold for the witness] or None (loop: the path's own atoms describe it)}]"""
    body = an.body
    out = []

    def seq_str(k):
        return "%s[%s..%s]" % (k[0], k[1], k[2] if k[2] is not None else "")
    for bb, t in body.calls():
        s = short(cname(t))
        if s not in ("Iterator::find", "Iterator::position", "Iterator::any", "Iterator::all", "Iterator::find_map") or len(t["args"]) != 2:
            continue
        an.terms._pos = (bb, "t")
        ps = parse_seq(prog, an, sy, an.terms.operand(t["args"][0]))
        if ps is None:
            continue
        base, lo, hi, enum, maps = ps
        elem = _apply_maps(prog, an, ELEM, maps)
        if elem is None:
            continue
        pred = _predicate(prog, an, an.terms.operand(t["args"][1]), elem)
        if pred is None:
            continue
        wit_value = None
        if s == "Iterator::find_map":
            # `find_map(|x| P(x).then_some(V(x)))` is `find(P).map(V)`: the witness is the first x with P(x), the payload V(x)
            p0 = strip(pred)
            if not (p0[0] == "call" and p0[1].endswith("<impl bool>::then_some") and len(p0[2]) == 2) or maps or enum:
                continue
            pred, vterm = p0[2][0], p0[2][1]
            try:
                wit_value = sy.name(vterm)
            except Exception:
                continue
            if "arg90" not in wit_value:
                continue
            s = "Iterator::find"
        _set_elem_type(sy, base, enum)
        try:
            pos_ats = _names(sy, sy.bool_atoms(pred, True), enum, "arg90")
            neg_ats = _names(sy, sy.bool_atoms(pred, False), enum, "arg90")
        except Exception:
            continue
        call = an.terms.call_term(t, bb)
        nm = sy.name(call)
        sq = seq_str(_seq_key(sy, base, lo, hi))
        if s in ("Iterator::find", "Iterator::position"):
            wit = "(%s as Some).0" % nm if s == "Iterator::find" and not maps else None
            out.append({"none": "%s is None" % nm, "some": "%s is Some" % nm, "witness": wit, "seq": sq, "enum": enum,
                        "forall": sorted(neg_ats), "exists": sorted(pos_ats), "index": "(%s as Some).0" % nm if s == "Iterator::position" else None,
                        "base": sy.name(base), "wit_value": wit_value})
        elif s == "Iterator::any":
            out.append({"none": "pred %s False" % nm, "some": "pred %s True" % nm, "witness": None, "seq": sq, "enum": enum,
                        "forall": sorted(neg_ats), "exists": sorted(pos_ats), "index": None, "base": sy.name(base)})
        else:
            out.append({"none": "pred %s True" % nm, "some": "pred %s False" % nm, "witness": None, "seq": sq, "enum": enum,
                        "forall": sorted(pos_ats), "exists": sorted(neg_ats), "index": None, "base": sy.name(base)})
    for (tail, head) in body.back_edges():
        loop = body.natural_loop(tail, head)
        nexts = [(bb, t) for bb, t in body.calls() if bb in loop and short(cname(t)) == "Iterator::next"]
        if len(nexts) != 1:
            continue
        nbb, nt = nexts[0]
        an.terms._pos = (nbb, "t")
        ps = parse_seq(prog, an, sy, an.terms.operand(nt["args"][0]))
        if ps is None or ps[4]:
            continue
        base, lo, hi, enum, maps = ps
        paths = loop_iteration_paths(an, head)
        if not paths or len(paths) > 16:
            continue
        ncall = an.terms.call_term(nt, nbb)
        nname = sy.name(ncall)
        ename = sy.name(("field", ("downcast", ncall, "Some"), 0))
        uname = "Option::<T>::unwrap(%s)" % nname       # `let x = it.next().unwrap()`: the same element (None panics)
        conts = []
        for path in paths:
            ats = path_atoms(sy, path)
            keep = [a for a in ats if not (a[0] in ("some", "none") and a[1] == nname)]
            conts.append(set(x_.replace(uname + ".0", "i").replace(uname + ".1", "x").replace(uname, "x") if enum else x_.replace(uname, "x")
                             for x_ in _names(sy, keep, enum, ename)))
        common = set.intersection(*conts) if conts else set()
        # a loop with stores to outer state is more than a check; its exhaustion atom still only says "all passed"
        out.append({"none": "%s is None" % nname, "some": "%s is Some" % nname, "witness": ename, "seq": seq_str(_seq_key(sy, base, lo, hi)), "enum": enum,
                    "forall": sorted(common), "exists": None, "index": None, "base": sy.name(base)})
    return out


def rewrite_rows(rws, atoms, value):
    """rows [(atoms, value)] of one path in the quantified vocabulary; a `find(P).unwrap()` / `position(P).unwrap()`
    whose outcome no guard tests is split into the found case and the `None.unwrap()` case first (the loop form has
    those two exits as separate paths)"""
    todo = [(list(atoms), value)]
    for r in rws:
        nm = r["some"][:-len(" is Some")] if r["some"].endswith(" is Some") else None
        if nm is None:
            continue
        nxt = []
        # `S[S.iter().position(P).unwrap()]` is named `S.iter().find(P).unwrap()` (agvlib.sym): the same untested unwrap
        alt = nm.replace("Iterator::position(", "Iterator::find(", 1) if r.get("index") and nm.startswith("Iterator::position(") else None
        for ats, val in todo:
            hit = [u for u in ("Option::<T>::unwrap(%s)" % nm, "Option::<T>::expect(%s" % nm) if u in val or any(u in a for a in ats)]
            if not hit and alt and r["some"] not in ats and r["none"] not in ats:
                ua = "Option::<T>::unwrap(%s)" % alt
                if ua in val or any(ua in a for a in ats):
                    tag_ = "x@%s" % r["seq"]
                    nxt.append(([a.replace(ua, tag_) for a in ats] + [r["some"]], val.replace(ua, tag_)))
                    nxt.append(([a.replace(ua, "Option::<T>::unwrap(None{})") for a in ats] + [r["none"]], val.replace(ua, "Option::<T>::unwrap(None{})")))
                    continue
            if hit and r["some"] not in ats and r["none"] not in ats:
                u = hit[0]

                def none_form(s_):
                    if u.startswith("Option::<T>::unwrap("):
                        return s_.replace(u, "Option::<T>::unwrap(None{})")
                    return s_
                payload = "(%s as Some).0" % nm
                some_form = (lambda s_: s_.replace(u, payload)) if u.startswith("Option::<T>::unwrap(") else (lambda s_: s_)
                nxt.append(([some_form(a) for a in ats] + [r["some"]], some_form(val)))
                nxt.append(([none_form(a) for a in ats] + [r["none"]], none_form(val)))
            else:
                nxt.append((ats, val))
        todo = nxt
    return [rewrite_row(rws, a, v) for a, v in todo]


def rewrite_row(rws, atoms, value):
    """atoms (list of str), value (str) of one path in the quantified vocabulary"""
    atoms = list(atoms)
    for r in rws:
        tag = "x@%s" % r["seq"]
        if r["none"] in atoms and r["forall"]:
            atoms.remove(r["none"])
            import re as _re
            uses_i = r["enum"] and any(_re.search(r"\bi\b", a_) for a_ in r["forall"])
            atoms.append("forall %s in %s: %s" % ("(i, x)" if uses_i else "x", r["seq"], " && ".join(r["forall"])))
        elif r["some"] in atoms:
            wit = r["witness"]
            idx = r["index"]
            uses = (wit and any(wit in a for a in atoms + [value])) or (idx and any(idx in a for a in atoms + [value]))
            atoms.remove(r["some"])
            ex = r["exists"]
            if ex is not None:
                atoms += [("exists in %s: " % r["seq"]) + a for a in ex] if not (wit or idx) else [_wit(a, tag, r) for a in ex]

            def rep(s_):
                if wit:
                    if r["enum"]:
                        s_ = s_.replace(wit + ".0", "i@" + r["seq"]).replace(wit + ".1", tag)
                    s_ = s_.replace(wit, (r.get("wit_value") or "arg90").replace("arg90", tag))
                if idx:
                    # S[position] is the element found, the position itself is its index
                    s_ = s_.replace("Index::index(%s,%s)" % (r["base"], idx), tag).replace(idx, "i@" + r["seq"])
                return s_
            atoms = [rep(a) for a in atoms]
            value = rep(value)
    # the element at the witness index is the witness, however it is reached
    for r in rws:
        ix = "Index::index(%s,i@%s)" % (r["base"], r["seq"])
        tg = "x@%s" % r["seq"]
        atoms = [a.replace(ix, tg) for a in atoms]
        value = value.replace(ix, tg)
    if "Option::<T>::unwrap(None{})" in value:
        value = "panic!(unwrap of None)"           # whatever surrounds it is never computed
        atoms = [a for a in atoms if "Option::<T>::unwrap(None{})" not in a]      # .. nor are tests on the value that does not exist
    return sorted(set(_canon_diff(a) if "@" in a else a for a in atoms)), value


def _canon_diff(a):
    """`A - B == 0` / `!= 0` with two plain terms: the terms in lexicographic order (the sign of such an atom is an
    artefact of the symbol names, which the witness renaming changes)"""
    for op in (" == 0", " != 0"):
        if a.endswith(op):
            body_ = a[:-len(op)]
            depth, cut = 0, []
            for i, ch in enumerate(body_):
                if ch in "([{<":
                    depth += 1
                elif ch in ")]}>":
                    depth -= 1
                elif depth == 0 and body_[i:i + 3] in (" - ", " + "):
                    cut.append(i)
            if len(cut) == 1 and body_[cut[0]:cut[0] + 3] == " - " and not body_.startswith("-"):
                x, y = body_[:cut[0]], body_[cut[0] + 3:]
                if not (x[:1].isdigit() or y[:1].isdigit()):
                    x, y = sorted([x, y])
                    return "%s - %s%s" % (x, y, op)
    return a


def _wit(a, tag, r):
    import re
    a = re.sub(r"\bx\b", tag, a)
    if r["enum"]:
        a = re.sub(r"\bi\b", "i@" + r["seq"], a)
    return a
