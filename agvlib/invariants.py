"""Type invariants by constructor census (DESIGN §4.5).

For a struct whose fields are all private, every construction (`Aggregate`) site lies in the defining
crate.  The invariant of the type is what holds at *all* construction sites:
  * field_box:       value range of an integer field (hull over the sites),
  * conv_ok:         `conv(field)` is Ok at every site (a dominating atom says so for the stored operand),
  * constructor_facts: for a type with one construction site, the guard facts of that site rewritten over
                     the fields (`argN.i`, `len(argN.i)`), usable inside the type's methods.
Clone impls copy already-valid values and are not construction sites.
"""
import re

from . import pp
from .guards import analysis
from .prover import Prover, poly_interval
from .sym import Poly, atom_str
from .terms import strip, unmut, short

_CACHE = {}


def is_private_struct(prog, adt):
    a = prog.adts.get(adt)
    return bool(a) and a["kind"] == "struct" and all(not f["pub"] for f in a["variants"][0]["fields"])


def sites(prog, adt):
    key = ("sites", id(prog), adt)
    if key in _CACHE:
        return _CACHE[key]
    out = []
    for p, body in prog.bodies.items():
        tr = body.j.get("impl_trait") or ""
        if tr.startswith("std::clone") or "::tests::" in p:
            continue
        for bi, si, s in body.stmts():
            if s["k"] == "assign" and s["rv"]["k"] == "aggr" and s["rv"].get("ak") == "adt" and s["rv"]["p"] == adt:
                out.append((p, bi, s))
    _CACHE[key] = out
    return out


def _touches_field(body, place, adt, idx):
    """does the place path go through field `idx` of a value of type `adt`?"""
    ty = body.locals[place["l"]]["ty"]
    for e in place["pr"]:
        k = e.get("k")
        if k == "deref":
            ty = ty.get("t") if ty and ty.get("k") in ("ref", "ptr") else None
            if ty is None:
                return False
        elif k == "field":
            if ty is not None and ty.get("k") == "adt" and ty.get("p") == adt and e.get("i") == idx:
                return True
            ty = e.get("ty")
        elif k in ("index", "constindex", "subslice"):
            ty = ty.get("t") if ty and ty.get("k") in ("array", "slice") else None
        elif k == "downcast":
            pass
        else:
            ty = e.get("ty", ty)
        if ty is None:
            return False
    return False


def field_stable(prog, adt, idx):
    """no code anywhere writes field `idx` of an existing `adt` value in place (assignment through the field, a call
    result stored into it, or a `&mut` borrow of it, e.g. `self.data.clear()`): the constructor-census invariant of
    the field then holds for every value of the type, not only freshly constructed ones"""
    key = ("stable", id(prog), adt, idx)
    if key in _CACHE:
        return _CACHE[key]
    ok = True
    for p, body in prog.bodies.items():
        if "::tests::" in p:
            continue
        for bi, si, st in body.stmts():
            if st["k"] != "assign":
                continue
            if st["p"]["pr"] and _touches_field(body, st["p"], adt, idx):
                ok = False
            rv = st["rv"]
            if rv["k"] in ("ref", "rawptr") and rv.get("m", True) and _touches_field(body, rv["p"], adt, idx):
                ok = False
            if not ok:
                break
        if ok:
            for bb, t in body.calls():
                d = t.get("dest")
                if d and d["pr"] and _touches_field(body, d, adt, idx):
                    ok = False
        if not ok:
            break
    _CACHE[key] = ok
    return ok


def field_box(prog, adt, idx):
    """(lo, hi) hull of the integer operand stored into field idx over all construction sites, or None"""
    key = ("box", id(prog), adt, idx)
    if key in _CACHE:
        return _CACHE[key]
    _CACHE[key] = None   # recursion guard
    a_ = prog.adts.get(adt)
    # the field itself must be private (a struct with a private field has no literal outside its module, and every
    # workspace construction site is in the census below); the other fields may be public
    if not (a_ and a_["kind"] == "struct" and idx < len(a_["variants"][0]["fields"]) and not a_["variants"][0]["fields"][idx]["pub"]):
        return None
    if not field_stable(prog, adt, idx):
        return None
    from .oblig import Ctx
    lo_hi = None
    ss = sites(prog, adt)
    if not ss:
        return None
    for p, bi, s in ss:
        body = prog.bodies[p]
        ctx = Ctx(prog, body)
        op = ctx.an.terms.operand(s["rv"]["ops"][idx])
        poly = ctx.sy.poly(op)
        if poly is None:
            return None
        pr, _, _ = ctx.prover_at(bi, [poly])
        lo, hi = poly_interval(poly, pr.box)
        # tighten with facts (lower/upper bounds provable by the prover)
        lo, hi = tighten(pr, poly, lo, hi)
        if (lo is None or hi is None or hi - lo >= (1 << 31)) and any(str(x).startswith(("phi(", "loop(")) for x in poly.syms()):
            # multi-definition operand: evaluate on every acyclic path to the site and take the hull
            from .sym import forward_paths
            paths = forward_paths(ctx.an, bi, limit=256)
            plo, phi_, okp = None, None, bool(paths)
            for path in paths or []:
                ctx.enter_path(path)
                try:
                    pp_ = ctx.sy.poly(ctx.an.terms.operand(s["rv"]["ops"][idx]))
                    if pp_ is None:
                        okp = False
                        break
                    pr2, _, other2 = ctx.prover_at(bi, [pp_])
                    dead, _ = pr2.prove_ge0(Poly.const(-1))
                    if dead or any(a[0] == "false" for a in other2):
                        continue
                    l2, h2 = poly_interval(pp_, pr2.box)
                    l2, h2 = tighten(pr2, pp_, l2, h2)
                    if l2 is None or h2 is None:
                        okp = False
                        break
                    plo = l2 if plo is None else min(plo, l2)
                    phi_ = h2 if phi_ is None else max(phi_, h2)
                finally:
                    ctx.leave_path()
            if okp and plo is not None:
                lo = plo if lo is None else max(lo, plo)
                hi = phi_ if hi is None else min(hi, phi_)
        if lo_hi is None:
            lo_hi = (lo, hi)
        else:
            lo_hi = (None if lo is None or lo_hi[0] is None else min(lo, lo_hi[0]),
                     None if hi is None or lo_hi[1] is None else max(hi, lo_hi[1]))
    _CACHE[key] = lo_hi
    return lo_hi


def tighten(pr, poly, lo, hi):
    """binary-search-free tightening: try a few candidate bounds implied by single facts"""
    cands_hi, cands_lo = set(), set()
    for f in pr.facts:
        # f = a*poly + c >= 0 with a = +-1
        d = f - poly
        if d.is_const():
            cands_lo.add(-d.const_value())
        d2 = f + poly
        if d2.is_const():
            cands_hi.add(d2.const_value())
    for c in sorted(cands_hi):
        if hi is None or c < hi:
            ok, _ = pr.prove_ge0(Poly.const(c) - poly)
            if ok:
                hi = c
                break
    for c in sorted(cands_lo, reverse=True):
        if lo is None or c > lo:
            ok, _ = pr.prove_ge0(poly - Poly.const(c))
            if ok:
                lo = c
                break
    return lo, hi


def len_box(prog, adt, idx):
    """(lo, hi) of the length of a Vec / slice field"""
    key = ("lenbox", id(prog), adt, idx)
    if key in _CACHE:
        return _CACHE[key]
    _CACHE[key] = None
    if not is_private_struct(prog, adt) or not field_stable(prog, adt, idx):
        return None
    emb = embedded_len_box(prog, adt, idx)
    if emb is not None:
        _CACHE[key] = emb
        return emb
    from .oblig import Ctx, seq_len_poly
    lo_hi = None
    for p, bi, s in sites(prog, adt):
        body = prog.bodies[p]
        ctx = Ctx(prog, body)
        op = ctx.an.terms.operand(s["rv"]["ops"][idx])
        lp = seq_len_poly(ctx, op)
        if lp is None:
            return None
        pr, _, _ = ctx.prover_at(bi, [lp])
        lo, hi = poly_interval(lp, pr.box)
        lo, hi = tighten(pr, lp, lo, hi)
        lo_hi = (lo, hi) if lo_hi is None else (None if lo is None or lo_hi[0] is None else min(lo, lo_hi[0]),
                                                None if hi is None or lo_hi[1] is None else max(hi, lo_hi[1]))
    _CACHE[key] = lo_hi
    return lo_hi


def conv_ok(prog, adt, idx, conv_fn):
    """at every construction site the stored operand x of field idx satisfies `conv_fn(x) is Ok`"""
    key = ("conv", id(prog), adt, idx, conv_fn)
    if key in _CACHE:
        return _CACHE[key]
    if not is_private_struct(prog, adt) or not field_stable(prog, adt, idx):
        return False
    from .oblig import Ctx
    ss = sites(prog, adt)
    ok_all = bool(ss)
    for p, bi, s in ss:
        body = prog.bodies[p]
        ctx = Ctx(prog, body)
        op = ctx.an.terms.operand(s["rv"]["ops"][idx])
        nm = ctx.sy.arg_name(op)
        want = "%s(%s)" % (conv_fn, nm)
        ge, ne, other = ctx.facts_at(bi)
        if not any(a[0] == "ok" and a[1] == want for a in other):
            ok_all = False
    _CACHE[key] = ok_all
    return ok_all


def constructor_facts(prog, adt, self_name="arg1"):
    """For a private struct with exactly one construction site: the guard facts of that site rewritten over the
    fields, one alternative per feasible path to the site (a value of the type was built along one of them).
    Returns [(facts: list[Poly >= 0], boxes: {symbol: (lo, hi)}), ...] or None."""
    key = ("cfacts", id(prog), adt, self_name)
    if key in _CACHE:
        return _CACHE[key]
    _CACHE[key] = None
    if not is_private_struct(prog, adt):
        return None
    if not all(field_stable(prog, adt, i_) for i_ in range(len(prog.adts[adt]["variants"][0]["fields"]))):
        return None
    ss = sites(prog, adt)
    if len(ss) != 1:
        return None
    from .oblig import Ctx, seq_len_poly
    from .sym import forward_paths
    p, bi, s = ss[0]
    body = prog.bodies[p]
    ctx = Ctx(prog, body)
    a = prog.adts[adt]
    paths = forward_paths(ctx.an, bi, limit=64)
    if not paths:
        return None
    alts = []
    seen = set()
    for path in paths:
        ctx.enter_path(path)
        try:
            ctx.an.terms._pos = (bi, 1 << 29)
            subst = {}    # symbol name (in the constructor) -> Poly over field symbols
            boxes = {}
            for i, (f, opj) in enumerate(zip(a["variants"][0]["fields"], s["rv"]["ops"])):
                op = ctx.an.terms.operand(opj)
                fty = f["ty"]
                if fty.get("k") in ("int", "bool"):
                    poly = ctx.sy.poly(op)
                    if poly is not None and len(poly.m) == 1 and list(poly.m.values())[0] == 1 and list(poly.m)[0] != () and len(list(poly.m)[0]) == 1:
                        sym = list(poly.m)[0][0]
                        subst[sym] = Poly.sym("%s.%d" % (self_name, i))
                        boxes["%s.%d" % (self_name, i)] = ctx.sy.sym_box.get(sym, (None, None))
                elif fty.get("k") == "adt" and fty["p"].endswith("::Vec"):
                    lp = seq_len_poly(ctx, op)
                    ln = "len(%s.%d)" % (self_name, i)
                    boxes[ln] = (0, (1 << 63) - 1)
                    if lp is not None:
                        # lp == len(field): if lp = (L - a)/k then L = k*len + a ; if lp is a single symbol, rename it
                        if len(lp.m) == 1 and list(lp.m)[0] != () and list(lp.m.values())[0] == 1 and len(list(lp.m)[0]) == 1:
                            subst[list(lp.m)[0][0]] = Poly.sym(ln)
                        elif set(lp.syms()) == {"L"} and lp.m.get(("L",), 0) != 0:
                            cL = lp.m[("L",)]
                            c0 = lp.m.get((), 0)
                            # lp = cL*L + c0 = len  =>  L = (len - c0)/cL
                            subst.setdefault("L", (Poly.sym(ln) - Poly.const(c0)).scale(1 / cL))
            ge, ne, other = ctx.facts_at(bi)
            pr0 = ctx.prover_at(bi, [])[0]
            dead, _ = pr0.prove_ge0(Poly.const(-1))
            if dead or any(a_[0] == "false" for a_ in other):
                continue
            ge = list(ge) + ctx.derived(bi, ge, ne, other, [])
            # `x != a` over a two-value range {a, b} is `x == b`
            for n_ in ne:
                sy_ = n_.syms()
                if len(sy_) == 1 and n_.degree() == 1:
                    nm_ = sy_[0]
                    c1 = n_.m.get((nm_,), 0)
                    c0 = n_.m.get((), 0)
                    bx_ = ctx.sy.sym_box.get(nm_, (None, None))
                    if c1 in (1, -1) and bx_[0] is not None and bx_[1] is not None and bx_[1] - bx_[0] == 1:
                        excluded = -c0 / c1
                        other_v = bx_[1] if excluded == bx_[0] else (bx_[0] if excluded == bx_[1] else None)
                        if other_v is not None:
                            ge.append(Poly.sym(nm_) - Poly.const(other_v))
                            ge.append(Poly.const(other_v) - Poly.sym(nm_))

            def rewrite(f):
                g = Poly()
                for m, c in f.m.items():
                    term = Poly.const(c)
                    for sname in m:
                        if sname not in subst:
                            dr = ctx.sy.divrem.get(sname)
                            if dr is None:
                                return None
                            kind, P, k = dr
                            P2 = rewrite(P)
                            if P2 is None:
                                return None
                            nm2 = "%s(%s,%d)" % (kind, P2, k)
                            subst[sname] = Poly.sym(nm2)
                            boxes[nm2] = ctx.sy.sym_box.get(sname, (0, k - 1) if kind == "rem" else (None, None))
                        term = term * subst[sname]
                    g = g + term
                return g
            out = []
            for f in ge:
                g = rewrite(f)
                if g is not None and not g.is_const():
                    out.append(g)
            k_ = tuple(sorted(str(g) for g in out))
            if k_ not in seen:
                seen.add(k_)
                alts.append((out, boxes))
        finally:
            ctx.leave_path()
    _CACHE[key] = alts or None
    return _CACHE[key]


# ---------------------------------------------------------------------- values that only come from embedded data
def _ty_contains(prog, ty, adt, depth=0):
    if ty is None or depth > 8:
        return False
    k = ty.get("k")
    if k == "adt":
        if ty.get("p") == adt:
            return True
        a = prog.adts.get(ty.get("p"))
        if a is not None:
            for v in a["variants"]:
                for f in v["fields"]:
                    if _ty_contains(prog, f["ty"], adt, depth + 1):
                        return True
        return any(_ty_contains(prog, x, adt, depth + 1) for x in ty.get("a") or [])
    if k in ("ref", "slice", "array"):
        return _ty_contains(prog, ty.get("t"), adt, depth + 1)
    if k == "tuple":
        return any(_ty_contains(prog, x, adt, depth + 1) for x in ty.get("ts") or [])
    return False


def _collect_json(prog, ty, js, adt, out, depth=0):
    """walk a serde_json value along the Rust type it is deserialised into (newtype structs are transparent, Vec and
    tuples are arrays); append the JSON value of every occurrence of `adt`; return False if the shapes disagree"""
    if depth > 12 or ty is None:
        return False
    k = ty.get("k")
    if k == "adt":
        p = ty.get("p")
        if p == adt:
            out.append(js)
        a = prog.adts.get(p)
        if a is not None:
            if a["kind"] != "struct":
                return p != adt and not _ty_contains(prog, ty, adt)
            fs = a["variants"][0]["fields"]
            if len(fs) == 1 and fs[0]["name"] == "0":
                return _collect_json(prog, fs[0]["ty"], js, adt, out, depth + 1)
            return not _ty_contains(prog, ty, adt) or p == adt
        if p == "std::vec::Vec":
            if not isinstance(js, list):
                return False
            return all(_collect_json(prog, ty["a"][0], x, adt, out, depth + 1) for x in js)
        return not _ty_contains(prog, ty, adt)
    if k == "tuple":
        ts = ty.get("ts") or []
        if not isinstance(js, list) or len(js) != len(ts):
            return False
        return all(_collect_json(prog, t, x, adt, out, depth + 1) for t, x in zip(ts, js))
    return True


def embedded_values(prog, adt):
    """If every value of the private struct `adt` is produced by deserialising byte constants embedded in the program
    (serde-derived constructors only; every serde_json entry point whose target type contains `adt` is a lazy_static
    initialiser reading a `const` byte string), return the list of JSON values of all its occurrences; else None."""
    key = ("embedded", id(prog), adt)
    if key in _CACHE:
        return _CACHE[key]
    _CACHE[key] = None
    import json as _json
    a = prog.adts.get(adt)
    if a is None or a.get("is_pub") and not is_private_struct(prog, adt):
        return None
    ss = sites(prog, adt)
    if not ss or not all("_serde::" in p for p, _, _ in ss):
        return None
    vals = []
    n_roots = 0
    for p, body in prog.bodies.items():
        if "_serde::" in p or "::tests::" in p:
            continue
        for bb, t in body.calls():
            c = t.get("resolved") or t.get("callee") or ""
            if not (c.startswith("serde_json::") or "Deserialize" in c or c.startswith("serde::")):
                continue
            ga = t.get("gargs") or []
            if any(g is None for g in ga):
                return None
            tys = [g for g in ga if _ty_contains(prog, g, adt)]
            if not tys:
                continue
            if "__static_ref_initialize" not in p or short(c) not in ("serde_json::from_slice", "de::from_slice") or len(t["args"]) != 1:
                return None
            an = analysis(prog, body)
            arg = unmut(an.terms.operand(t["args"][0]))
            while arg[0] in ("ref", "deref", "cast"):
                arg = unmut(arg[1] if arg[0] != "cast" else arg[2])
            if arg[0] != "cdef":
                return None
            cst = prog.consts.get(arg[1]) or {}
            lit = cst.get("lit") or {}
            if lit.get("k") != "bytes":
                return None
            try:
                js = _json.loads(bytes(lit["v"]).decode("utf-8"))
            except Exception:
                return None
            if not _collect_json(prog, tys[0], js, adt, vals):
                return None
            n_roots += 1
    if not n_roots:
        return None
    _CACHE[key] = vals
    return vals


def embedded_len_box(prog, adt, idx):
    """length range of the Vec held by the newtype struct `adt` over all embedded values"""
    a = prog.adts.get(adt)
    if a is None or a["kind"] != "struct" or idx != 0 or len(a["variants"][0]["fields"]) != 1:
        return None
    vals = embedded_values(prog, adt)
    if not vals or not all(isinstance(v, list) for v in vals):
        return None
    return (min(len(v) for v in vals), max(len(v) for v in vals))
