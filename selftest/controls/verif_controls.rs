//! Control functions for the panic-obligation engine (not part of the repository; added to a scratch copy only).
//! `*_panics`: some input makes the function panic -> the engine must leave at least one obligation OPEN.
//! `*_safe`:   no input panics -> the engine should discharge everything (precision check, reported separately).
#![allow(clippy::all, unused)]

pub fn iter_next_twice_panics(s: &[u8]) -> u8 {
    let mut it = s.iter();
    if it.next().is_some() {
        // a different `next()` call: may be None
        return *it.next().unwrap();
    }
    0
}

pub fn iter_next_once_safe(s: &[u8]) -> u8 {
    let mut it = s.iter();
    let x = it.next();
    if x.is_some() {
        return *x.unwrap();
    }
    0
}

pub fn two_loop_vars_panics(s: &[u8; 8]) -> u8 {
    let mut a = 0usize;
    let mut b = 0usize;
    let mut acc = 0u8;
    while a < 8 {
        // `a` is bounded, `b` is not
        acc ^= s[b];
        a += 1;
        b += 2;
    }
    acc
}

pub fn two_vecs_panics(x: u8) -> u8 {
    let mut v: Vec<u8> = Vec::new();
    let mut w: Vec<u8> = Vec::new();
    v.push(x);
    if !v.is_empty() {
        // guard is about `v`, not `w`
        return w[0];
    }
    0
}

pub fn guarded_len_index_safe(s: &[u8]) -> u8 {
    if s.len() < 10 {
        return 0;
    }
    s[9] ^ s[0]
}

pub fn guarded_len_index_off_by_one_panics(s: &[u8]) -> u8 {
    if s.len() < 9 {
        return 0;
    }
    s[9]
}

pub fn sub_under_guard_safe(s: &[u8]) -> usize {
    if s.len() < 24 {
        return 0;
    }
    s.len() - 24
}

pub fn sub_without_guard_panics(s: &[u8]) -> usize {
    s.len() - 24
}

pub fn be16_minus_two_panics(s: &[u8]) -> usize {
    if s.len() < 8 {
        return 0;
    }
    let n: usize = u16::from_be_bytes(s[6..8].try_into().unwrap()).into();
    n - 2
}

pub fn be16_minus_two_guarded_safe(s: &[u8]) -> usize {
    if s.len() < 8 {
        return 0;
    }
    let n: usize = u16::from_be_bytes(s[6..8].try_into().unwrap()).into();
    if n < 2 {
        return 0;
    }
    n - 2
}

pub fn relational_slice_safe(s: &[u8]) -> u8 {
    if s.len() < 4 {
        return 0;
    }
    let n = usize::from(s[0]);
    if n + 4 > s.len() {
        return 0;
    }
    s[4..][..n].iter().fold(0, |a, b| a ^ b)
}

pub fn relational_slice_panics(s: &[u8]) -> u8 {
    if s.len() < 4 {
        return 0;
    }
    let n = usize::from(s[0]);
    if n + 3 > s.len() {
        return 0;
    }
    s[4..][..n].iter().fold(0, |a, b| a ^ b)
}

pub fn match_range_unreachable_safe(x: u8) -> u8 {
    let y = x & 0x1f;
    match y {
        0..=15 => 1,
        16..=31 => 2,
        _ => unreachable!(),
    }
}

pub fn match_range_unreachable_panics(x: u8) -> u8 {
    let y = x & 0x3f;
    match y {
        0..=15 => 1,
        16..=31 => 2,
        _ => unreachable!(),
    }
}

pub fn division_panics(a: u32, b: u32) -> u32 {
    a / b
}

pub fn division_guarded_safe(a: u32, b: u32) -> u32 {
    if b == 0 {
        return 0;
    }
    a / b
}

pub fn shift_panics(a: u32, b: u32) -> u32 {
    a << b
}

pub fn shift_masked_safe(a: u32, b: u32) -> u32 {
    a << (b & 31)
}

pub fn narrowing_unwrap_panics(a: u32) -> u8 {
    (a >> 16).try_into().unwrap()
}

pub fn narrowing_unwrap_safe(a: u32) -> u8 {
    (a >> 24).try_into().unwrap()
}

pub fn str_slice_panics(name: &str) -> &str {
    if name.len() != 4 {
        return "";
    }
    &name[1..3]
}

pub fn str_slice_ascii_safe(name: &str) -> &str {
    if name.len() != 4 || !name.chars().all(|c| c.is_ascii_alphanumeric()) {
        return "";
    }
    &name[1..3]
}

pub fn unwrap_other_option_panics(a: Option<u8>, b: Option<u8>) -> u8 {
    if a.is_some() {
        return b.unwrap();
    }
    0
}

pub fn unwrap_same_option_safe(a: Option<u8>) -> u8 {
    if a.is_some() {
        return a.unwrap();
    }
    0
}

fn helper_index(s: &[u8], o: usize) -> u8 {
    s[o]
}

pub fn helper_context_safe(s: &[u8]) -> u8 {
    if s.len() != 16 {
        return 0;
    }
    helper_index(s, 3) ^ helper_index(s, 15)
}

fn helper_index2(s: &[u8], o: usize) -> u8 {
    s[o]
}

pub fn helper_context_panics(s: &[u8]) -> u8 {
    if s.len() != 16 {
        return 0;
    }
    helper_index2(s, 3) ^ helper_index2(s, 16)
}

pub fn pop_then_index_panics(x: u8) -> u8 {
    let mut v = vec![x];
    v.pop();
    v[0]
}

pub fn enumerate_index_safe(s: &[u8], t: &[u8]) -> u8 {
    if s.len() != t.len() {
        return 0;
    }
    let mut acc = 0;
    for (i, x) in s.iter().enumerate() {
        acc ^= x ^ t[i];
    }
    acc
}

pub fn enumerate_index_other_len_panics(s: &[u8], t: &[u8]) -> u8 {
    let mut acc = 0;
    for (i, x) in s.iter().enumerate() {
        acc ^= x ^ t[i];
    }
    acc
}

pub fn add_overflow_panics(a: u8, b: u8) -> u8 {
    a + b
}

pub fn add_widened_safe(a: u8, b: u8) -> u16 {
    u16::from(a) + u16::from(b)
}

pub fn mul_guarded_safe(a: u16, b: u16) -> u32 {
    u32::from(a) * u32::from(b)
}

pub fn chunks_zero_panics(s: &[u8], n: usize) -> usize {
    s.chunks_exact(n).count()
}

pub fn copy_from_slice_len_panics(s: &[u8]) -> [u8; 16] {
    let mut a = [0u8; 16];
    if s.len() >= 10 {
        a[..10].copy_from_slice(&s[..9]);
    }
    a
}

pub fn copy_from_slice_len_safe(s: &[u8]) -> [u8; 16] {
    let mut a = [0u8; 16];
    if s.len() >= 10 {
        a[..10].copy_from_slice(&s[..10]);
    }
    a
}
