//! Control functions for the panic-obligation engine (not part of the repository; added to a scratch copy only).
//! `*_panics`: some input makes the function panic -> the engine must leave at least one obligation OPEN.
//! `*_safe`:   no input panics -> the engine should discharge everything (precision check, reported separately).
#![allow(clippy::all, unused)]

pub fn iter_next_twice_panics(s: &[u8]) -> u8 {
    let mut it = s.iter();
    if it.next().is_some() {
        // a different `next()` call: may be None
        return *it.next().unwrap();
    }
    0
}

pub fn iter_next_once_safe(s: &[u8]) -> u8 {
    let mut it = s.iter();
    let x = it.next();
    if x.is_some() {
        return *x.unwrap();
    }
    0
}

pub fn two_loop_vars_panics(s: &[u8; 8]) -> u8 {
    let mut a = 0usize;
    let mut b = 0usize;
    let mut acc = 0u8;
    while a < 8 {
        // `a` is bounded, `b` is not
        acc ^= s[b];
        a += 1;
        b += 2;
    }
    acc
}

pub fn two_vecs_panics(x: u8) -> u8 {
    let mut v: Vec<u8> = Vec::new();
    let mut w: Vec<u8> = Vec::new();
    v.push(x);
    if !v.is_empty() {
        // guard is about `v`, not `w`
        return w[0];
    }
    0
}

pub fn guarded_len_index_safe(s: &[u8]) -> u8 {
    if s.len() < 10 {
        return 0;
    }
    s[9] ^ s[0]
}

pub fn guarded_len_index_off_by_one_panics(s: &[u8]) -> u8 {
    if s.len() < 9 {
        return 0;
    }
    s[9]
}

pub fn sub_under_guard_safe(s: &[u8]) -> usize {
    if s.len() < 24 {
        return 0;
    }
    s.len() - 24
}

pub fn sub_without_guard_panics(s: &[u8]) -> usize {
    s.len() - 24
}

pub fn be16_minus_two_panics(s: &[u8]) -> usize {
    if s.len() < 8 {
        return 0;
    }
    let n: usize = u16::from_be_bytes(s[6..8].try_into().unwrap()).into();
    n - 2
}

pub fn be16_minus_two_guarded_safe(s: &[u8]) -> usize {
    if s.len() < 8 {
        return 0;
    }
    let n: usize = u16::from_be_bytes(s[6..8].try_into().unwrap()).into();
    if n < 2 {
        return 0;
    }
    n - 2
}

pub fn relational_slice_safe(s: &[u8]) -> u8 {
    if s.len() < 4 {
        return 0;
    }
    let n = usize::from(s[0]);
    if n + 4 > s.len() {
        return 0;
    }
    s[4..][..n].iter().fold(0, |a, b| a ^ b)
}

pub fn relational_slice_panics(s: &[u8]) -> u8 {
    if s.len() < 4 {
        return 0;
    }
    let n = usize::from(s[0]);
    if n + 3 > s.len() {
        return 0;
    }
    s[4..][..n].iter().fold(0, |a, b| a ^ b)
}

pub fn match_range_unreachable_safe(x: u8) -> u8 {
    let y = x & 0x1f;
    match y {
        0..=15 => 1,
        16..=31 => 2,
        _ => unreachable!(),
    }
}

pub fn match_range_unreachable_panics(x: u8) -> u8 {
    let y = x & 0x3f;
    match y {
        0..=15 => 1,
        16..=31 => 2,
        _ => unreachable!(),
    }
}

pub fn division_panics(a: u32, b: u32) -> u32 {
    a / b
}

pub fn division_guarded_safe(a: u32, b: u32) -> u32 {
    if b == 0 {
        return 0;
    }
    a / b
}

pub fn shift_panics(a: u32, b: u32) -> u32 {
    a << b
}

pub fn shift_masked_safe(a: u32, b: u32) -> u32 {
    a << (b & 31)
}

pub fn narrowing_unwrap_panics(a: u32) -> u8 {
    (a >> 16).try_into().unwrap()
}

pub fn narrowing_unwrap_safe(a: u32) -> u8 {
    (a >> 24).try_into().unwrap()
}

pub fn str_slice_panics(name: &str) -> &str {
    if name.len() != 4 {
        return "";
    }
    &name[1..3]
}

pub fn str_slice_ascii_safe(name: &str) -> &str {
    if name.len() != 4 || !name.chars().all(|c| c.is_ascii_alphanumeric()) {
        return "";
    }
    &name[1..3]
}

pub fn unwrap_other_option_panics(a: Option<u8>, b: Option<u8>) -> u8 {
    if a.is_some() {
        return b.unwrap();
    }
    0
}

pub fn unwrap_same_option_safe(a: Option<u8>) -> u8 {
    if a.is_some() {
        return a.unwrap();
    }
    0
}

fn helper_index(s: &[u8], o: usize) -> u8 {
    s[o]
}

pub fn helper_context_safe(s: &[u8]) -> u8 {
    if s.len() != 16 {
        return 0;
    }
    helper_index(s, 3) ^ helper_index(s, 15)
}

fn helper_index2(s: &[u8], o: usize) -> u8 {
    s[o]
}

pub fn helper_context_panics(s: &[u8]) -> u8 {
    if s.len() != 16 {
        return 0;
    }
    helper_index2(s, 3) ^ helper_index2(s, 16)
}

pub fn pop_then_index_panics(x: u8) -> u8 {
    let mut v = vec![x];
    v.pop();
    v[0]
}

pub fn enumerate_index_safe(s: &[u8], t: &[u8]) -> u8 {
    if s.len() != t.len() {
        return 0;
    }
    let mut acc = 0;
    for (i, x) in s.iter().enumerate() {
        acc ^= x ^ t[i];
    }
    acc
}

pub fn enumerate_index_other_len_panics(s: &[u8], t: &[u8]) -> u8 {
    let mut acc = 0;
    for (i, x) in s.iter().enumerate() {
        acc ^= x ^ t[i];
    }
    acc
}

pub fn add_overflow_panics(a: u8, b: u8) -> u8 {
    a + b
}

pub fn add_widened_safe(a: u8, b: u8) -> u16 {
    u16::from(a) + u16::from(b)
}

pub fn mul_guarded_safe(a: u16, b: u16) -> u32 {
    u32::from(a) * u32::from(b)
}

pub fn chunks_zero_panics(s: &[u8], n: usize) -> usize {
    s.chunks_exact(n).count()
}

pub fn copy_from_slice_len_panics(s: &[u8]) -> [u8; 16] {
    let mut a = [0u8; 16];
    if s.len() >= 10 {
        a[..10].copy_from_slice(&s[..9]);
    }
    a
}

pub fn copy_from_slice_len_safe(s: &[u8]) -> [u8; 16] {
    let mut a = [0u8; 16];
    if s.len() >= 10 {
        a[..10].copy_from_slice(&s[..10]);
    }
    a
}

pub fn chunk_index_panics(s: &[u8]) -> Vec<u8> {
    s.chunks_exact(2).map(|c| c[2]).collect()
}

pub fn chunk_index_safe(s: &[u8]) -> Vec<u8> {
    s.chunks_exact(2).map(|c| c[1]).collect()
}

pub struct Small(usize);
impl Small {
    pub fn try_new(x: usize) -> Option<Small> {
        if x < 10 {
            Some(Small(x))
        } else {
            None
        }
    }
}
pub fn invariant_index_safe(a: &[u8; 10], i: Small) -> u8 {
    a[i.0]
}

pub struct Leaky(usize);
impl Leaky {
    pub fn try_new(x: usize) -> Option<Leaky> {
        if x < 10 {
            Some(Leaky(x))
        } else {
            None
        }
    }
    pub fn raw(x: usize) -> Leaky {
        Leaky(x)
    }
}
pub fn invariant_index_leaky_panics(a: &[u8; 10], i: Leaky) -> u8 {
    a[i.0]
}

const TABLE: [usize; 4] = [1, 2, 3, 9];
pub fn table_value_index_panics(a: &[u8; 8], i: usize) -> u8 {
    a[TABLE[i & 3]]
}
pub fn table_value_index_safe(a: &[u8; 10], i: usize) -> u8 {
    a[TABLE[i & 3]]
}

pub fn range_loop_safe(v: &[u8]) -> u8 {
    let mut acc = 0;
    for i in 0..v.len() {
        acc ^= v[i];
    }
    acc
}

pub fn range_loop_inclusive_panics(v: &[u8]) -> u8 {
    let mut acc = 0;
    for i in 0..=v.len() {
        acc ^= v[i];
    }
    acc
}

pub fn byte_index_safe(a: &[u8; 256], b: u8) -> u8 {
    a[usize::from(b)]
}

pub fn byte_index_panics(a: &[u8; 255], b: u8) -> u8 {
    a[usize::from(b)]
}

pub struct Pkt {
    id: Option<u8>,
    data: Vec<u8>,
}
impl Pkt {
    pub fn empty() -> Pkt {
        Pkt { id: None, data: Vec::new() }
    }
    pub fn full(id: u8, data: Vec<u8>) -> Pkt {
        Pkt { id: Some(id), data }
    }
    pub fn id(&self) -> Option<u8> {
        self.id
    }
    pub fn data(&self) -> &[u8] {
        &self.data
    }
}
pub fn some_unless_empty_safe(p: &Pkt) -> u8 {
    if p.data().is_empty() {
        return 0;
    }
    p.id().unwrap()
}

pub struct Pkt2 {
    id: Option<u8>,
    data: Vec<u8>,
}
impl Pkt2 {
    pub fn empty() -> Pkt2 {
        Pkt2 { id: None, data: Vec::new() }
    }
    pub fn anonymous(data: Vec<u8>) -> Pkt2 {
        Pkt2 { id: None, data }
    }
    pub fn id(&self) -> Option<u8> {
        self.id
    }
    pub fn data(&self) -> &[u8] {
        &self.data
    }
}
pub fn some_unless_empty_third_ctor_panics(p: &Pkt2) -> u8 {
    if p.data().is_empty() {
        return 0;
    }
    p.id().unwrap()
}

pub struct Bag {
    sent: Vec<u8>,
    flagged: Vec<u8>,
    vals: Vec<u16>,
}
impl Bag {
    pub fn sent(&self) -> &[u8] {
        &self.sent
    }
    pub fn flagged(&self) -> &[u8] {
        &self.flagged
    }
    pub fn value_of(&self, c: u8) -> Option<u16> {
        if let Some(i) = self.sent.iter().position(|x| *x == c) {
            Some(self.vals.get(i).copied().unwrap_or(0))
        } else {
            None
        }
    }
}
pub fn member_lookup_safe(b: &Bag) -> u16 {
    let mut acc = 0u16;
    for &c in b.sent() {
        acc ^= b.value_of(c).unwrap();
    }
    acc
}
pub fn member_lookup_other_field_panics(b: &Bag) -> u16 {
    let mut acc = 0u16;
    for &c in b.flagged() {
        acc ^= b.value_of(c).unwrap();
    }
    acc
}

pub fn saturating_then_index_panics(s: &[u8], n: usize) -> u8 {
    let k = n.saturating_sub(2);
    s[k]
}

pub fn rem_index_safe(a: &[u8; 4], n: usize) -> u8 {
    a[n % 4]
}

pub fn rem_index_panics(a: &[u8; 4], n: usize) -> u8 {
    a[n % 5]
}

pub fn range_loop_pop_panics(mut v: Vec<u8>) -> u8 {
    let mut acc = 0;
    for i in 0..v.len() {
        acc ^= v[i];
        v.pop();
    }
    acc
}

pub fn len_guard_then_pop_panics(mut v: Vec<u8>) -> u8 {
    if v.len() < 2 {
        return 0;
    }
    v.pop();
    v.pop();
    v[0]
}

pub fn len_guard_then_push_safe(mut v: Vec<u8>) -> u8 {
    if v.len() < 2 {
        return 0;
    }
    v.push(1);
    v[1]
}

pub fn swap_remove_after_guard_safe(mut v: Vec<u8>) -> u8 {
    if v.is_empty() {
        return 0;
    }
    v.swap_remove(0)
}

pub fn swap_remove_twice_panics(mut v: Vec<u8>) -> u8 {
    if v.is_empty() {
        return 0;
    }
    v.swap_remove(0);
    v.swap_remove(0)
}

pub fn option_take_then_unwrap_panics(x: u8) -> u8 {
    let mut o = Some(x);
    o.take();
    o.unwrap()
}

fn bump(x: &mut usize) {
    *x += 10;
}

pub fn int_mutated_through_ref_panics(a: &[u8; 8]) -> u8 {
    let mut i = 3usize;
    bump(&mut i);
    a[i]
}

pub fn int_reassigned_panics(a: &[u8; 8], c: bool) -> u8 {
    let mut i = 3usize;
    if c {
        i = 9;
    }
    a[i]
}

pub fn int_reassigned_safe(a: &[u8; 8], c: bool) -> u8 {
    let mut i = 3usize;
    if c {
        i = 7;
    }
    a[i]
}

pub struct Cur {
    pos: usize,
}
pub fn field_mutated_panics(a: &[u8; 8], c: &mut Cur) -> u8 {
    if c.pos >= 8 {
        return 0;
    }
    c.pos += 1;
    a[c.pos]
}

pub fn field_guarded_safe(a: &[u8; 8], c: &Cur) -> u8 {
    if c.pos >= 8 {
        return 0;
    }
    a[c.pos]
}

pub fn slice_reborrow_shrinks_panics(s: &[u8]) -> u8 {
    let mut t = s;
    if t.len() < 4 {
        return 0;
    }
    t = &t[3..];
    t[1]
}

pub fn advance_cursor_panics(input: &mut &[u8]) -> u8 {
    if input.len() < 2 {
        return 0;
    }
    *input = &input[2..];
    input[0]
}

pub fn loop_accumulate_index_panics(a: &[u8; 16], s: &[u8]) -> u8 {
    let mut k = 0usize;
    for x in s {
        k += usize::from(*x & 1);
    }
    a[k]
}

pub fn loop_incr_then_index_panics(a: &[u8]) -> u8 {
    let mut i = 0;
    let mut acc = 0;
    while i < a.len() {
        i += 1;
        acc ^= a[i];
    }
    acc
}

pub fn loop_index_then_incr_safe(a: &[u8]) -> u8 {
    let mut i = 0;
    let mut acc = 0;
    while i < a.len() {
        acc ^= a[i];
        i += 1;
    }
    acc
}

pub struct Grow(usize);
impl Grow {
    pub fn try_new(x: usize) -> Option<Grow> {
        if x < 10 {
            Some(Grow(x))
        } else {
            None
        }
    }
    pub fn inc(&mut self) {
        self.0 += 1;
    }
}
pub fn invariant_broken_by_method_panics(a: &[u8; 10], i: &Grow) -> u8 {
    a[i.0]
}

pub struct Buf {
    data: Vec<u8>,
}
impl Buf {
    pub fn new(s: &[u8]) -> Option<Buf> {
        if s.len() < 4 {
            return None;
        }
        Some(Buf { data: s.to_vec() })
    }
    pub fn shrink(&mut self) {
        self.data.clear();
    }
    pub fn third(&self) -> u8 {
        self.data[3]
    }
}
pub fn vec_invariant_broken_by_method_panics(b: &Buf) -> u8 {
    b.third()
}

pub struct Buf2 {
    data: Vec<u8>,
}
impl Buf2 {
    pub fn new(s: &[u8]) -> Option<Buf2> {
        if s.len() < 4 {
            return None;
        }
        Some(Buf2 { data: s.to_vec() })
    }
    pub fn third(&self) -> u8 {
        self.data[3]
    }
}
pub fn vec_invariant_safe(b: &Buf2) -> u8 {
    b.third()
}

pub fn position_then_clear_panics(mut v: Vec<u8>) -> u8 {
    if let Some(i) = v.iter().position(|x| *x == 7) {
        v.clear();
        return v[i];
    }
    0
}

pub fn position_index_safe(v: &[u8]) -> u8 {
    if let Some(i) = v.iter().position(|x| *x == 7) {
        return v[i];
    }
    0
}

pub fn two_slices_same_len_name_panics(a: &[u8], b: &[u8]) -> u8 {
    if a.len() < 3 {
        return 0;
    }
    b[2]
}

pub fn nested_option_unwrap_panics(a: Option<Option<u8>>) -> u8 {
    if a.is_some() {
        return a.unwrap().unwrap();
    }
    0
}

pub struct Id7(u8);
impl TryFrom<u8> for Id7 {
    type Error = ();
    fn try_from(x: u8) -> Result<Self, ()> {
        if x < 8 {
            Ok(Id7(x))
        } else {
            Err(())
        }
    }
}
pub fn conv_unwrap_safe(x: u8) -> Id7 {
    Id7::try_from(x & 7).unwrap()
}
pub fn conv_unwrap_panics(x: u8) -> Id7 {
    Id7::try_from(x & 15).unwrap()
}

pub fn radix_safe(s: &str) -> Result<Id7, std::num::ParseIntError> {
    if s.len() != 1 {
        return Ok(Id7(0));
    }
    let d = u8::from_str_radix(s, 8)?;
    Ok(Id7::try_from(d).unwrap())
}
pub fn radix_panics(s: &str) -> Result<Id7, std::num::ParseIntError> {
    if s.len() != 1 {
        return Ok(Id7(0));
    }
    let d = u8::from_str_radix(s, 16)?;
    Ok(Id7::try_from(d).unwrap())
}

pub fn lz_shift_safe(x: u32) -> u32 {
    if x == 0 {
        return 0;
    }
    1 << (31 - x.leading_zeros())
}
pub fn lz_shift_panics(x: u32) -> u32 {
    1 << (31 - x.leading_zeros())
}

pub fn sum_safe(s: &[i16; 64]) -> i32 {
    s.iter().map(|v| i32::from(*v)).sum()
}
pub fn sum_panics(s: &[u8]) -> u8 {
    s.iter().sum()
}

pub fn pad_safe(n: usize) -> usize {
    if n > 1000 {
        return 0;
    }
    n + 4 - n % 4
}
pub fn rem_sub_panics(n: usize) -> usize {
    n % 4 - 1
}

pub fn closure_capture_safe(s: &[u8], k: u8) -> Vec<u8> {
    let a = [0u8; 16];
    let j = usize::from(k & 15);
    s.iter().map(|_| a[j]).collect()
}
pub fn closure_capture_panics(s: &[u8], k: u8) -> Vec<u8> {
    let a = [0u8; 16];
    let j = usize::from(k & 31);
    s.iter().map(|_| a[j]).collect()
}

pub fn capacity_panics(n: usize) -> Vec<u64> {
    Vec::with_capacity(n)
}
pub fn capacity_safe(n: u16) -> Vec<u64> {
    Vec::with_capacity(usize::from(n))
}

pub fn b2i_index_safe(a: &[u8; 2], x: u8) -> u8 {
    a[usize::from(x > 5)]
}
pub fn b2i_index_panics(a: &[u8; 1], x: u8) -> u8 {
    a[usize::from(x > 5)]
}

pub fn phi_hull_safe(a: &[u8; 8], c: bool) -> u8 {
    let k = if c { 4 } else { 6 };
    a[k + 1]
}
pub fn phi_hull_panics(a: &[u8; 7], c: bool) -> u8 {
    let k = if c { 4 } else { 6 };
    a[k + 1]
}

pub fn unwrap_or_index_panics(a: &[u8; 4], o: Option<u8>) -> u8 {
    a[usize::from(o.unwrap_or(4))]
}
pub fn unwrap_or_index_safe(a: &[u8; 5], o: Option<u8>) -> u8 {
    a[usize::from(o.unwrap_or(4) & 3)]
}

pub fn i16_sub_panics(a: i16, b: i16) -> i16 {
    a - b
}
pub fn i16_sub_widened_safe(a: i16, b: i16) -> i32 {
    i32::from(a) - i32::from(b)
}
pub fn neg_panics(a: i8) -> i8 {
    -a
}
pub fn abs_panics(a: i32) -> i32 {
    a.abs()
}
pub fn pow_panics(a: u32) -> u32 {
    a.pow(3)
}

pub fn enum_match_unwrap_panics(o: Result<u8, u8>) -> u8 {
    match o {
        Err(_) => o.unwrap(),
        Ok(v) => v,
    }
}
pub fn enum_match_unwrap_safe(o: Result<u8, u8>) -> u8 {
    match o {
        Ok(_) => o.unwrap(),
        Err(v) => v,
    }
}

pub fn last_of_nonempty_safe(s: &[u8]) -> u8 {
    if s.is_empty() {
        return 0;
    }
    *s.last().unwrap()
}
pub fn last_of_maybe_empty_panics(s: &[u8]) -> u8 {
    *s.last().unwrap()
}

pub fn split_at_safe(s: &[u8]) -> u8 {
    if s.len() < 3 {
        return 0;
    }
    let (a, b) = s.split_at(3);
    a[2] ^ (b.len() as u8)
}
pub fn split_at_panics(s: &[u8]) -> u8 {
    let (a, _) = s.split_at(3);
    a[0]
}

fn helper_as_value(o: usize) -> u8 {
    [1u8, 2, 3, 4][o]
}
pub fn helper_used_as_value_panics(s: &[usize]) -> Vec<u8> {
    let direct = helper_as_value(2);
    let mut v: Vec<u8> = s.iter().copied().map(helper_as_value).collect();
    v.push(direct);
    v
}

pub fn closure_mut_capture_panics(a: &[u8; 4], s: &[u8]) -> u8 {
    let mut k = 0usize;
    s.iter().for_each(|_| {
        k += 1;
    });
    a[k]
}

pub fn closure_inner_mut_capture_panics(a: &[u8; 4], s: &[u8]) -> u8 {
    let mut k = 0usize;
    let mut acc = 0u8;
    s.iter().for_each(|_| {
        acc ^= a[k];
        k += 1;
    });
    acc
}

// `x << 4` on u8 truncates: it is not 16*x, so `x >= 16` does not make the result >= 256 / non-zero
pub fn shl_truncating_sub_panics(x: u8) -> u8 {
    if x < 16 {
        return 0;
    }
    let y = x << 4;
    y - 1
}
// no bit is shifted out of the u32: the shift is the multiplication, 256 * x <= 65280
pub fn shl_widened_index_safe(a: &[u8; 65281], x: u8) -> u8 {
    a[(u32::from(x) << 8) as usize]
}
pub fn shl_widened_index_panics(a: &[u8; 65280], x: u8) -> u8 {
    a[(u32::from(x) << 8) as usize]
}
// bit test through a mask vs through a shift: only equal under the width invariant
pub fn bit_test_index_safe(a: &[u8; 2], x: u8) -> u8 {
    a[usize::from(x >> 7 == 1)]
}
pub fn bit_test_index_panics(a: &[u8; 1], x: u8) -> u8 {
    a[usize::from(x & 0x80 != 0)]
}

// quantified facts in normal form (agvlib/quant.py): a checking loop that returns early bounds the length through the
// u16 id; the same loop with `break` does not (elements after the break are unchecked)
pub struct IdEl {
    pub id: u16,
    pub v: u8,
}
pub fn dense_loop_mul_safe(v: &[IdEl]) -> usize {
    for (i, e) in v.iter().enumerate() {
        if usize::from(e.id) != i {
            return 0;
        }
    }
    v.len() * 1_000_000
}
pub fn dense_loop_break_mul_panics(v: &[IdEl]) -> usize {
    for (i, e) in v.iter().enumerate() {
        if usize::from(e.id) != i {
            break;
        }
    }
    v.len() * 100_000_000_000_000
}
pub fn dense_position_mul_safe(v: &[IdEl]) -> usize {
    if v.iter().enumerate().position(|(i, e)| usize::from(e.id) != i).is_some() {
        return 0;
    }
    v.len() * 1_000_000
}
pub fn dense_all_mul_safe(v: &[IdEl]) -> usize {
    if !v.iter().enumerate().all(|(i, e)| i == usize::from(e.id)) {
        return 0;
    }
    v.len() * 1_000_000
}
pub fn dense_partial_mul_panics(v: &[IdEl]) -> usize {
    // only the first half is checked
    if v[..v.len() / 2].iter().enumerate().any(|(i, e)| usize::from(e.id) != i) {
        return 0;
    }
    v.len() * 100_000_000_000_000
}
pub fn position_in_prefix_index_safe(v: &[u8], w: &[u8; 8]) -> u8 {
    if v.len() < 9 {
        return 0;
    }
    match v[..8].iter().position(|&b| b == 0) {
        Some(i) => w[i],
        None => 0,
    }
}
pub fn position_in_whole_index_panics(v: &[u8], w: &[u8; 8]) -> u8 {
    match v.iter().position(|&b| b == 0) {
        Some(i) => w[i],
        None => 0,
    }
}
pub fn div_euclid_index_safe(a: &[u8; 4], x: i32) -> u8 {
    if x < 0 || x > 255 {
        return 0;
    }
    a[x.div_euclid(64) as usize]
}
pub fn div_euclid_neg_index_panics(a: &[u8; 4], x: i32) -> u8 {
    if x < -255 || x > 255 {
        return 0;
    }
    a[x.div_euclid(64) as usize]
}

// the sibling bit loop: `x &= x - 1` clears the lowest set bit
pub fn low_bit_loop_safe(mut x: u16) -> Vec<u8> {
    let mut v = Vec::new();
    while x != 0 {
        v.push(x.trailing_zeros() as u8);
        x &= x - 1;
    }
    v
}
pub fn low_bit_loop_index_safe(a: &[u8; 16], mut x: u16) -> u8 {
    let mut s = 0u8;
    while x != 0 {
        s ^= a[x.trailing_zeros() as usize];
        x &= x - 1;
    }
    s
}
pub fn low_bit_loop_index_panics(a: &[u8; 15], mut x: u16) -> u8 {
    let mut s = 0u8;
    while x != 0 {
        s ^= a[x.trailing_zeros() as usize];
        x &= x - 1;
    }
    s
}
pub fn low_bit_loop_stuck_panics(mut x: u16) -> u32 {
    // `x &= x` never clears anything: the loop does not terminate for x != 0
    let mut n = 0u32;
    while x != 0 {
        n = n.wrapping_add(1);
        x &= x;
    }
    n
}
pub fn ne_zero_sub_safe(x: u32) -> u32 {
    if x != 0 {
        x - 1
    } else {
        0
    }
}
pub fn ne_one_sub_panics(x: u32) -> u32 {
    if x != 1 {
        x - 1
    } else {
        0
    }
}

// accumulation loops: `for x in IT { acc += widen(x) }` is IT.map(widen).sum()
pub fn sum_loop_safe(s: &[i16]) -> i32 {
    if s.len() < 64 {
        return 0;
    }
    let mut num: i32 = 0;
    for &v in &s[..64] {
        num += i32::from(v);
    }
    num.div_euclid(64)
}
pub fn sum_loop_narrow_panics(s: &[i16]) -> i16 {
    if s.len() < 64 {
        return 0;
    }
    // the accumulator is as narrow as the elements: 64 * 32767 does not fit
    let mut num: i16 = 0;
    for &v in &s[..64] {
        num += v;
    }
    num
}
pub fn sum_loop_unbounded_panics(s: &[i32]) -> i32 {
    // unknown number of elements of full range
    let mut num: i32 = 0;
    for &v in s {
        num += v;
    }
    num
}
pub fn sum_loop_scaled_panics(s: &[i16]) -> i32 {
    if s.len() < 64 {
        return 0;
    }
    // not a plain widening: 64 * 32767 * 70000 overflows
    let mut num: i32 = 0;
    for &v in &s[..64] {
        num += i32::from(v) * 70000;
    }
    num
}
pub fn sum_loop_extra_add_panics(s: &[i16], big: i32) -> i32 {
    if s.len() < 64 {
        return 0;
    }
    // the accumulator does not start at zero
    let mut num: i32 = big;
    for &v in &s[..64] {
        num += i32::from(v);
    }
    num
}

// split_at(k): (.0, .1) = (s[..k], s[k..])
pub fn split_at_parts_safe(s: &[u8]) -> u8 {
    if s.len() < 20 {
        return 0;
    }
    let (head, tail) = s[..20].split_at(16);
    let w: [u8; 4] = tail.try_into().unwrap();
    head[15] ^ w[3]
}
pub fn split_at_wrong_half_panics(s: &[u8]) -> u8 {
    if s.len() < 20 {
        return 0;
    }
    let (head, _tail) = s[..20].split_at(16);
    // head has 16 bytes, not 4
    let w: [u8; 4] = head.try_into().unwrap();
    w[0]
}
pub fn split_at_tail_index_panics(s: &[u8]) -> u8 {
    if s.len() < 20 {
        return 0;
    }
    let (_head, tail) = s[..20].split_at(16);
    tail[4]
}
pub fn split_at_too_far_panics(s: &[u8], k: usize) -> u8 {
    let (head, _tail) = s.split_at(k);
    head.len() as u8
}

// an element of chunks_exact(n) has n elements
pub fn chunk_elem_index_safe(s: &[u8]) -> Vec<i16> {
    let mut v = Vec::new();
    for pair in s.chunks_exact(2) {
        v.push(i16::from_le_bytes([pair[0], pair[1]]));
    }
    v
}
pub fn chunk_elem_index_panics(s: &[u8]) -> Vec<i16> {
    let mut v = Vec::new();
    for pair in s.chunks_exact(2) {
        v.push(i16::from_le_bytes([pair[1], pair[2]]));
    }
    v
}
pub fn chunks_not_exact_index_panics(s: &[u8]) -> Vec<i16> {
    let mut v = Vec::new();
    // `chunks` may yield a shorter last chunk
    for pair in s.chunks(2) {
        v.push(i16::from_le_bytes([pair[0], pair[1]]));
    }
    v
}

// first-match search loops: `r = D; for (i, x) in s.iter().enumerate() { if P(x) { r = i; break } }` is position(P).unwrap_or(D)
pub fn search_loop_safe(s: &[u32], t: u32) -> u32 {
    if s.is_empty() {
        return 0;
    }
    let mut r = s.len() - 1;
    for (i, &x) in s.iter().enumerate() {
        if x > t {
            r = i;
            break;
        }
    }
    s[r]
}
pub fn search_loop_default_len_panics(s: &[u32], t: u32) -> u32 {
    let mut r = s.len();
    for (i, &x) in s.iter().enumerate() {
        if x > t {
            r = i;
            break;
        }
    }
    s[r]
}
pub fn search_loop_plus_one_panics(s: &[u32], t: u32) -> u32 {
    if s.is_empty() {
        return 0;
    }
    let mut r = s.len() - 1;
    for (i, &x) in s.iter().enumerate() {
        if x > t {
            r = i + 1;
            break;
        }
    }
    s[r]
}
pub fn search_loop_minus_one_panics(s: &[u32], t: u32) -> u32 {
    if s.is_empty() {
        return 0;
    }
    let mut r = s.len() - 1;
    for (i, &x) in s.iter().enumerate() {
        if x > t {
            r = i;
            break;
        }
    }
    // the first element may match
    s[r - 1]
}
pub fn search_loop_other_slice_panics(s: &[u32], o: &[u32], t: u32) -> u32 {
    if o.is_empty() {
        return 0;
    }
    let mut r = o.len() - 1;
    for (i, &x) in s.iter().enumerate() {
        if x > t {
            r = i;
            break;
        }
    }
    o[r]
}

// s[s.iter().position(P).unwrap()] : the index is in range whenever the unwrap returns
pub fn position_unwrap_index_safe_but_unwrap_panics(s: &[u32], t: u32) -> u32 {
    let i = s.iter().position(|&x| x > t).unwrap();
    s[i]
}
pub fn position_unwrap_other_slice_panics(s: &[u32], o: &[u32], t: u32) -> u32 {
    if s.iter().all(|&x| x <= t) {
        return 0;
    }
    let i = s.iter().position(|&x| x > t).unwrap();
    o[i]
}

// a parameter that is mutated through `&mut` after a guard: the guard no longer speaks about its value
pub fn mut_param_swap_panics(mut a: Vec<u8>, mut b: Vec<u8>) -> u8 {
    if a.is_empty() {
        return 0;
    }
    std::mem::swap(&mut a, &mut b);
    a[0]
}
pub fn mut_param_clear_panics(mut a: Vec<u8>) -> u8 {
    if a.is_empty() {
        return 0;
    }
    a.clear();
    a[0]
}
pub fn mut_param_untouched_safe(a: Vec<u8>, mut b: Vec<u8>) -> u8 {
    if a.is_empty() {
        return 0;
    }
    b.clear();
    a[0]
}

// the map step fused into the bit loop: still at most one push per set bit
pub fn low_bit_loop_fused_safe(mut x: u16) -> u32 {
    let mut v: Vec<u32> = Vec::new();
    while x != 0 {
        v.push(x.trailing_zeros() * 3 + 1);
        x &= x - 1;
    }
    // at most 16 elements
    [0u32; 17][v.len()]
}
pub fn low_bit_loop_fused_two_pushes_panics(mut x: u16) -> u32 {
    let mut v: Vec<u32> = Vec::new();
    while x != 0 {
        v.push(x.trailing_zeros() * 3 + 1);
        v.push(0);
        x &= x - 1;
    }
    [0u32; 17][v.len()]
}

// a `mut` parameter that is reassigned after the guard
pub fn mut_param_reassigned_panics(mut i: usize, a: &[u8; 4]) -> u8 {
    if i >= 4 {
        return 0;
    }
    i = i + 4;
    a[i]
}
pub fn mut_param_reassigned_in_branch_panics(mut i: usize, a: &[u8; 4], f: bool) -> u8 {
    if i >= 4 {
        return 0;
    }
    if f {
        i += 1;
    }
    a[i]
}
pub fn mut_param_reassigned_safe(mut i: usize, a: &[u8; 8]) -> u8 {
    if i >= 4 {
        return 0;
    }
    i = i + 4;
    a[i]
}

// two vectors that both start empty do not have the same length
pub fn two_filled_vecs_panics(a: &[u8], b: &[u8]) -> u8 {
    let mut v: Vec<u8> = Vec::new();
    let mut w: Vec<u8> = Vec::new();
    for &x in a {
        v.push(x);
    }
    for &x in b {
        w.push(x);
    }
    if v.len() > 3 {
        return w[3];
    }
    0
}

// `s.get(i)` being Some bounds i
pub fn get_some_then_index_safe(s: &[u8], i: usize) -> u8 {
    if s.get(i).is_some() {
        return s[i];
    }
    0
}
pub fn get_some_other_slice_panics(s: &[u8], o: &[u8], i: usize) -> u8 {
    if s.get(i).is_some() {
        return o[i];
    }
    0
}
pub fn get_some_after_truncate_panics(mut v: Vec<u8>, i: usize) -> u8 {
    if v.get(i).is_some() {
        v.clear();
        return v[i];
    }
    0
}

// windows(n): every item has n elements, the k-th window starts at k <= len - n
pub fn windows_elem_index_safe(s: &[u32]) -> u32 {
    let mut acc = 0u32;
    for (k, w) in s.windows(3).enumerate() {
        acc ^= w[0] ^ w[2] ^ s[k + 2];
    }
    acc
}
pub fn windows_elem_index_panics(s: &[u32]) -> u32 {
    let mut acc = 0u32;
    for (k, w) in s.windows(3).enumerate() {
        acc ^= w[3];
    }
    acc
}
pub fn windows_start_index_panics(s: &[u32]) -> u32 {
    let mut acc = 0u32;
    for (k, _w) in s.windows(3).enumerate() {
        acc ^= s[k + 3];
    }
    acc
}

// tuple-valued match: each component is one of the arms' components (no correlation assumed)
pub fn tuple_match_index_safe(a: &[u8; 32], c: u8, p1: u8, p2: u8) -> u8 {
    if p1 > 0 || p2 > 0 {
        return 0;
    }
    let (pre, ch) = match c {
        0..=15 => (p1, c),
        16..=31 => (p2, c - 16),
        _ => return 0,
    };
    a[usize::from(16 * pre + ch)]
}
pub fn tuple_match_index_panics(a: &[u8; 32], c: u8, p1: u8, p2: u8) -> u8 {
    if p1 > 1 || p2 > 1 {
        return 0;
    }
    let (pre, ch) = match c {
        0..=15 => (p1, c),
        16..=31 => (p2, c),
        _ => return 0,
    };
    // 16 * 1 + 31 = 47
    a[usize::from(16 * pre + ch)]
}

// a closure that its parent only calls: the index is in range at every call site
pub fn local_closure_index_safe(a: &[u8; 8]) -> u8 {
    let at = |i: usize| a[i];
    let mut acc = at(0) ^ at(1);
    for k in 2..8 {
        acc ^= at(k);
    }
    acc
}
pub fn local_closure_index_panics(a: &[u8; 8]) -> u8 {
    let at = |i: usize| a[i];
    let mut acc = at(0) ^ at(1);
    for k in 2..9 {
        acc ^= at(k);
    }
    acc
}
// the same closure handed to an adapter: it can be called with anything
pub fn local_closure_passed_on_panics(a: &[u8; 8], idx: &[usize]) -> u8 {
    let at = |i: usize| a[i];
    let first = at(0);
    idx.iter().map(|&i| at(i)).fold(first, |x, y| x ^ y)
}

// `match opt { Some(i) => i, None => D }` read as `opt.unwrap_or(D)`
pub fn match_position_default_safe(s: &[u32; 4], k: u32) -> u32 {
    let i = match s.iter().position(|&x| x > k) {
        Some(i) => i,
        None => 3,
    };
    s[i]
}
pub fn match_position_default_panics(s: &[u32; 4], k: u32) -> u32 {
    let i = match s.iter().position(|&x| x > k) {
        Some(i) => i,
        None => 4,
    };
    s[i]
}

// a length fact taken before `pop()` does not hold after it
pub fn pop_then_swap_remove_panics(mut v: Vec<u8>) -> u8 {
    if v.len() > 0 {
        v.pop();
        return v.swap_remove(0);
    }
    0
}
pub fn pop_then_swap_remove_safe(mut v: Vec<u8>) -> u8 {
    if v.len() > 1 {
        v.pop();
        return v.swap_remove(0);
    }
    0
}

// .. nor does "first() is Some" (non-empty) survive a `pop()`
pub fn first_then_pop_swap_remove_panics(mut v: Vec<(usize, usize)>) -> usize {
    if let Some((0, _)) = v.first() {
        let (a, _) = v.pop().unwrap();
        let (_, b) = v.swap_remove(0);
        return a + b;
    }
    0
}
pub fn len_first_last_pop_swap_remove_safe(mut v: Vec<(usize, usize)>) -> usize {
    if v.len() > 1 {
        if let Some((0, _)) = v.first() {
            if let Some((_, 256)) = v.last() {
                let (a, _) = v.pop().unwrap();
                let (_, b) = v.swap_remove(0);
                return a.wrapping_add(b);
            }
        }
    }
    0
}

pub fn first_then_pop_swap_remove2_panics(mut v: Vec<(usize, usize)>) -> usize {
    if let Some((0, _)) = v.first() {
        let _ = v.pop();
        let (_, b) = v.swap_remove(0);
        return b;
    }
    0
}
