// F6 (C18): "the radius changes by less than 0.5 mm between lookups 8 ns apart" is false for the embedded drift
// table.  Place as physics/tests/f6_drift_step.rs and run `cargo test --offline -p alpha_g_physics --test f6_drift_step`.
// On the unchanged tree the assertion fails: at z = 0 the lookups at t = 136 ns and t = 144 ns (two adjacent knots
// of the first table) differ by 0.571 mm; 135 adjacent knot pairs over the 92 tables differ by 0.5 mm or more
// (largest 0.652 mm).
use alpha_g_physics::{Avalanche, SpacePoint};
use uom::si::f64::{Angle, Length, Time};
use uom::si::{angle::radian, length::meter, time::second};

fn radius(z: f64, t: f64) -> f64 {
    let a = Avalanche {
        t: Time::new::<second>(t),
        phi: Angle::new::<radian>(0.0),
        z: Length::new::<meter>(z),
        wire_amplitude: 1.0,
        pad_amplitude: 1.0,
    };
    SpacePoint::try_from(a).unwrap().r.get::<meter>()
}

#[test]
fn radius_changes_by_less_than_half_a_millimetre_per_8ns() {
    let d = radius(0.0, 1.36e-7) - radius(0.0, 1.44e-7);
    assert!(d < 0.5e-3, "step of {} m between lookups 8 ns apart", d);
}
