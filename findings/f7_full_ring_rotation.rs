// F7 (C13): with all 256 anode wires present, the wire deconvolution is not equivariant under a rotation of the
// event by one pad column (8 wires).
//
// This is a unit test for the *unchanged* physics crate.  `wire_range_deconvolution` and `contiguous_ranges` are
// crate-private, so the test is appended to physics/src/deconvolution/wires/tests.rs of a scratch copy:
//
//   cp -r /repo /tmp/f7 && cat /verif/findings/f7_full_ring_rotation.rs >> /tmp/f7/physics/src/deconvolution/wires/tests.rs
//   (cd /tmp/f7 && cargo test --offline -p alpha_g_physics --lib f7_)
//
// Observed on the pinned tree: `f7_partial_ring_is_equivariant` passes (a 255-wire block gives bit-identical results
// wherever it sits) and `f7_full_ring_is_equivariant` FAILS: two avalanches of amplitude 80 on the neighbouring wires
// 255 and 0 (with the signals they induce on their ring neighbours) are reconstructed ~13% low, while the same pair
// on wires 7 and 8 is recovered exactly, because `a_matrix(256)` has no coupling between wires 255 and 0.

#[cfg(test)]
fn f7_signals(centre: usize, missing: Option<usize>) -> [Option<Vec<f64>>; TPC_ANODE_WIRES] {
    // two avalanches of amplitude 80 at time bin 10 on the adjacent wires `centre` and `centre + 1`, each with the
    // signals it induces on its 4 neighbours on each side *on the ring*; every other wire carries a flat (zero)
    // waveform, `missing` carries no data
    let mut signals = [(); TPC_ANODE_WIRES].map(|_| Some(vec![0.0; 10 + WIRE_RESPONSE.len()]));
    for hit in [centre, centre + 1] {
        for d in -4i64..=4 {
            let w = (hit as i64 + d).rem_euclid(TPC_ANODE_WIRES as i64) as usize;
            let f = NEIGHBOR_FACTORS[d.unsigned_abs() as usize];
            let s = signals[w].as_mut().unwrap();
            for (k, r) in WIRE_RESPONSE.iter().enumerate() {
                s[10 + k] += 80.0 * f * r;
            }
        }
    }
    if let Some(m) = missing {
        signals[m] = None;
    }
    signals
}

#[cfg(test)]
fn f7_deconvolve(signals: &[Option<Vec<f64>>; TPC_ANODE_WIRES]) -> Vec<Vec<f64>> {
    let mut out = vec![Vec::new(); TPC_ANODE_WIRES];
    for range in contiguous_ranges(signals) {
        for (i, input) in wire_range_deconvolution(signals, range) {
            out[i] = input;
        }
    }
    out
}

#[test]
fn f7_partial_ring_is_equivariant() {
    // wire 128 (resp. 136) missing: one block of 255 wires that straddles the 255/0 seam
    let a = f7_deconvolve(&f7_signals(255, Some(128)));
    let b = f7_deconvolve(&f7_signals(7, Some(136)));
    for w in 0..TPC_ANODE_WIRES {
        assert_eq!(a[w], b[(w + 8) % TPC_ANODE_WIRES], "wire {w}");
    }
}

#[test]
fn f7_full_ring_is_equivariant() {
    let a = f7_deconvolve(&f7_signals(255, None));
    let b = f7_deconvolve(&f7_signals(7, None));
    // the avalanche itself: amplitude 80 at bin 10 of the centre wire
    println!("hits on wires 7/8:   recovered amplitudes {} / {}", b[7][10], b[8][10]);
    println!("hits on wires 255/0: recovered amplitudes {} / {}", a[255][10], a[0][10]);
    // not even approximately equal (the property asks for bit-identical)
    assert!(
        (a[255][10] - b[7][10]).abs() < 1e-6 * 80.0,
        "the same avalanche is reconstructed as {} on wire 255 and as {} on wire 7",
        a[255][10],
        b[7][10]
    );
    for w in 0..TPC_ANODE_WIRES {
        assert_eq!(a[w], b[(w + 8) % TPC_ANODE_WIRES], "wire {w}: the pattern rotated by one pad column is reconstructed differently");
    }
}
