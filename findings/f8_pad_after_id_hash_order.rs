// Demonstration for finding F8 (property C11): success/failure of MainEvent::try_from_banks depends on the HashMap
// hash seed (i.e. differs between repetitions, threads and processes) when two pad packets of the same board claim the
// same AFTER chip in their payload while their chunk headers name different chips, and one of them is empty after the
// pad delay.  Drop into physics/tests/ and run
//   RUST_MIN_STACK=268435456 cargo test --offline -p alpha_g_physics --test f8_pad_after_id_hash_order
use alpha_g_physics::MainEvent;

fn crc32c(data: &[u8]) -> u32 {
    let mut crc: u32 = !0;
    for &b in data {
        crc ^= u32::from(b);
        for _ in 0..8 {
            crc = if crc & 1 == 1 { (crc >> 1) ^ 0x82F6_3B78 } else { crc >> 1 };
        }
    }
    !crc
}

const MAC_12: [u8; 6] = [236, 41, 34, 206, 84, 2];
const DEV_12: u32 = 3458345452;
const MAC_13: [u8; 6] = [236, 40, 159, 252, 84, 2];

// PWB v2 packet, chip A, one sent channel (readout index 4 = pad channel 1), `n` samples of value `v`.
fn pwb_payload(mac: [u8; 6], n: u16, v: i16) -> Vec<u8> {
    let mut p = vec![2u8, b'A', 0, 0];
    p.extend_from_slice(&mac);
    p.extend_from_slice(&[0, 0]); // trigger delay
    p.extend_from_slice(&[1, 0, 0, 0, 0, 0, 0, 0]); // trigger timestamp (bytes 18-19 zero)
    p.extend_from_slice(&[0, 0]); // last sca cell
    p.extend_from_slice(&n.to_le_bytes()); // requested samples
    let mut mask = [0u8; 10];
    mask[0] = 1 << 3; // readout index 4
    p.extend_from_slice(&mask); // sent
    p.extend_from_slice(&mask); // over threshold
    p.extend_from_slice(&[0, 0, 0, 0]); // event counter
    p.extend_from_slice(&[0, 0]); // fifo max depth
    p.extend_from_slice(&[0, 0]); // descriptor depths
    assert_eq!(p.len(), 52);
    p.extend_from_slice(&4u16.to_le_bytes());
    p.extend_from_slice(&n.to_le_bytes());
    for _ in 0..n {
        p.extend_from_slice(&v.to_le_bytes());
    }
    if n % 2 == 1 {
        p.extend_from_slice(&[0, 0]);
    }
    p.extend_from_slice(&[0xCC; 4]);
    p
}

fn chunk(device_id: u32, chip: u8, payload: &[u8]) -> Vec<u8> {
    let mut c = Vec::new();
    c.extend_from_slice(&device_id.to_le_bytes());
    c.extend_from_slice(&0u32.to_le_bytes()); // packet sequence
    c.extend_from_slice(&0u16.to_le_bytes()); // channel sequence
    c.push(chip); // AFTER chip in the chunk header
    c.push(1); // end of message
    c.extend_from_slice(&0u16.to_le_bytes()); // chunk id
    c.extend_from_slice(&u16::try_from(payload.len()).unwrap().to_le_bytes());
    let h = !crc32c(&c[0..16]);
    c.extend_from_slice(&h.to_le_bytes());
    c.extend_from_slice(payload);
    while c.len() % 4 != 0 {
        c.push(0);
    }
    let pc = !crc32c(&c[20..]);
    c.extend_from_slice(&pc.to_le_bytes());
    c
}

fn trg() -> Vec<u8> {
    let mut w = [0u32; 20];
    w[1] = 0x8000_0000;
    w[19] = 0xE000_0000;
    w.iter().flat_map(|x| x.to_le_bytes()).collect()
}


fn outcome(order: bool) -> bool {
    let t = trg();
    // both payloads say chip 'A'; the chunk headers say chip A (0) and chip B (1): two map keys, one pad position
    let short = chunk(DEV_12, 0, &pwb_payload(MAC_12, 64, 0)); // 64 samples <= pad delay 100: empty after the delay
    let full = chunk(DEV_12, 1, &pwb_payload(MAC_12, 110, 0));
    if order {
        MainEvent::try_from_banks(u32::MAX, [("ATAT", &t[..]), ("PC12", &short[..]), ("PC12", &full[..])]).is_ok()
    } else {
        MainEvent::try_from_banks(u32::MAX, [("ATAT", &t[..]), ("PC12", &full[..]), ("PC12", &short[..])]).is_ok()
    }
}

#[test]
fn f8_same_banks_same_verdict_on_every_repetition() {
    let first = outcome(true);
    for i in 0..200 {
        assert_eq!(outcome(i % 2 == 0), first, "repetition {i}: the same banks were judged differently");
    }
}
