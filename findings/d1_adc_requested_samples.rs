// Demonstration for finding D1 (properties C01, C02).
// Drop into detector/tests/ and run `cargo test --offline -p alpha_g_detector --test d1_adc_requested_samples`
// (debug: panics "attempt to subtract with overflow" before the fix; --release: the packet is accepted before the fix).
use alpha_g_detector::alpha16::AdcV3Packet;

fn packet(requested_samples: u16) -> Vec<u8> {
    let n = 66usize;
    let mut v = vec![0u8; 36 + 2 * n];
    v[0] = 1;
    v[1] = 3;
    v[4] = 0; // module
    v[5] = 128; // channel A32(0)
    v[6..8].copy_from_slice(&requested_samples.to_be_bytes());
    v[14..20].copy_from_slice(&[216, 128, 57, 104, 55, 76]); // board "09"
    let len = v.len();
    // footer: suppression enabled (bit 13), keep_bit (bit 12), keep_last = 34; baseline 0
    let footer: u16 = (1 << 13) | (1 << 12) | 34;
    v[len - 4..len - 2].copy_from_slice(&footer.to_be_bytes());
    v
}

#[test]
fn requested_samples_below_two_is_rejected_without_panic() {
    for rs in [0u16, 1] {
        let r = AdcV3Packet::try_from(&packet(rs)[..]);
        assert!(r.is_err(), "requested_samples={rs}: 66 samples accepted against a limit of requested_samples-2");
    }
    // sanity: a consistent packet (68 requested, 66 sent) is accepted
    assert!(AdcV3Packet::try_from(&packet(68)[..]).is_ok());
}
