// Demonstrations for findings D2 (C09) and F4 (C10).
// Drop into physics/tests/ and run `cargo test --offline -p alpha_g_physics --test d2_f4_main_event`.
use alpha_g_physics::MainEvent;

fn crc32c(data: &[u8]) -> u32 {
    let mut crc: u32 = !0;
    for &b in data {
        crc ^= u32::from(b);
        for _ in 0..8 {
            crc = if crc & 1 == 1 { (crc >> 1) ^ 0x82F6_3B78 } else { crc >> 1 };
        }
    }
    !crc
}

const MAC_12: [u8; 6] = [236, 41, 34, 206, 84, 2];
const DEV_12: u32 = 3458345452;
const MAC_13: [u8; 6] = [236, 40, 159, 252, 84, 2];

// PWB v2 packet, chip A, one sent channel (readout index 4 = pad channel 1), `n` samples of value `v`.
fn pwb_payload(mac: [u8; 6], n: u16, v: i16) -> Vec<u8> {
    let mut p = vec![2u8, b'A', 0, 0];
    p.extend_from_slice(&mac);
    p.extend_from_slice(&[0, 0]); // trigger delay
    p.extend_from_slice(&[1, 0, 0, 0, 0, 0, 0, 0]); // trigger timestamp (bytes 18-19 zero)
    p.extend_from_slice(&[0, 0]); // last sca cell
    p.extend_from_slice(&n.to_le_bytes()); // requested samples
    let mut mask = [0u8; 10];
    mask[0] = 1 << 3; // readout index 4
    p.extend_from_slice(&mask); // sent
    p.extend_from_slice(&mask); // over threshold
    p.extend_from_slice(&[0, 0, 0, 0]); // event counter
    p.extend_from_slice(&[0, 0]); // fifo max depth
    p.extend_from_slice(&[0, 0]); // descriptor depths
    assert_eq!(p.len(), 52);
    p.extend_from_slice(&4u16.to_le_bytes());
    p.extend_from_slice(&n.to_le_bytes());
    for _ in 0..n {
        p.extend_from_slice(&v.to_le_bytes());
    }
    if n % 2 == 1 {
        p.extend_from_slice(&[0, 0]);
    }
    p.extend_from_slice(&[0xCC; 4]);
    p
}

fn chunk(device_id: u32, payload: &[u8]) -> Vec<u8> {
    let mut c = Vec::new();
    c.extend_from_slice(&device_id.to_le_bytes());
    c.extend_from_slice(&0u32.to_le_bytes()); // packet sequence
    c.extend_from_slice(&0u16.to_le_bytes()); // channel sequence
    c.push(0); // chip A
    c.push(1); // end of message
    c.extend_from_slice(&0u16.to_le_bytes()); // chunk id
    c.extend_from_slice(&u16::try_from(payload.len()).unwrap().to_le_bytes());
    let h = !crc32c(&c[0..16]);
    c.extend_from_slice(&h.to_le_bytes());
    c.extend_from_slice(payload);
    while c.len() % 4 != 0 {
        c.push(0);
    }
    let pc = !crc32c(&c[20..]);
    c.extend_from_slice(&pc.to_le_bytes());
    c
}

fn trg() -> Vec<u8> {
    let mut w = [0u32; 20];
    w[1] = 0x8000_0000;
    w[19] = 0xE000_0000;
    w.iter().flat_map(|x| x.to_le_bytes()).collect()
}

fn build(mac: [u8; 6], v: i16) -> Result<MainEvent, alpha_g_physics::TryMainEventFromDataBanksError> {
    let t = trg();
    let c = chunk(DEV_12, &pwb_payload(mac, 110, v));
    MainEvent::try_from_banks(u32::MAX, [("ATAT", &t[..]), ("PC12", &c[..])])
}

#[test]
fn d2_extreme_pad_sample_does_not_panic() {
    assert!(build(MAC_12, 0).is_ok());
    assert!(build(MAC_12, 2047).is_ok());
    // CRC-valid chunk, representable sample: must give Ok or Err, never a panic
    let _ = build(MAC_12, i16::MIN);
}

#[test]
fn f4_pad_bank_name_and_payload_disagreeing_on_board_is_rejected() {
    // bank PC12, chunk header says board 12, reassembled packet says board 13
    assert!(build(MAC_13, 0).is_err(), "bank PC12 accepted although its packet is from board 13");
}
