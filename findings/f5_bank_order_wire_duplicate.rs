// Demonstration for finding F5 (property C11): success/failure of MainEvent::try_from_banks depends on
// bank order when the same wire bank name occurs twice and one copy is empty after the delay.
// Drop into physics/tests/ and run
//   RUST_MIN_STACK=268435456 cargo test --offline -p alpha_g_physics --test f5_bank_order_wire_duplicate
use alpha_g_physics::MainEvent;

fn adc(n: usize) -> Vec<u8> {
    let mut v = vec![0u8; 36 + 2 * n];
    v[0] = 1;
    v[1] = 3;
    v[5] = 128; // channel A32(0)
    v[6..8].copy_from_slice(&u16::try_from(n + 2).unwrap().to_be_bytes());
    v[14..20].copy_from_slice(&[216, 128, 57, 104, 55, 76]); // board "09"
    v // footer 0: suppression off, keep_bit 0, keep_last 0, baseline 0 (all samples 0)
}

fn trg() -> Vec<u8> {
    let mut w = [0u32; 20];
    w[1] = 0x8000_0000;
    w[19] = 0xE000_0000;
    w.iter().flat_map(|x| x.to_le_bytes()).collect()
}

#[test]
fn duplicate_wire_bank_is_judged_alike_in_both_orders() {
    let t = trg();
    let short = adc(64); // 64 samples <= simulation delay of 100: empty after the delay
    let full = adc(300);
    let a = MainEvent::try_from_banks(u32::MAX, [("ATAT", &t[..]), ("C090", &short[..]), ("C090", &full[..])]).is_ok();
    let b = MainEvent::try_from_banks(u32::MAX, [("ATAT", &t[..]), ("C090", &full[..]), ("C090", &short[..])]).is_ok();
    assert_eq!(a, b, "same banks, different order: {a} vs {b}");
}
