#!/usr/bin/env python3
"""Generate a synthetic little-endian MIDAS file with one Chronobox event.

Layout (midasio 0.5.3): BOR(0x8000) MAGIC(0x494D) run ts odb_len odb | events |
EOR(0x8001) MAGIC run ts odb_len odb.
Event: id(u16) mask(u16) serial(u32) ts(u32) event_size(u32 = banks+8)
       banks_size(u32) flags(u32; 17 = 32-bit banks) banks...
Bank32: name[4] type(u32; 6 = U32) size(u32) data, padded to 8 bytes.
"""
import struct
import sys

out = sys.argv[1] if len(sys.argv) > 1 else "/tmp/wt/d3/demo/run00001sub000.mid"

RUN = 1
CHRONOBOX_EVENT_ID = 4


def marker(counter, top_bit):
    v = (counter & 0x7FFFFF) | (0x800000 if top_bit else 0)
    return struct.pack("<I", v | (0xFF << 24))


def tsc(channel, timestamp, trailing=False):
    assert channel < 59
    v = (timestamp & 0xFFFFFE) | (1 if trailing else 0)
    return struct.pack("<I", v | ((0x80 | channel) << 24))


fifo = b"".join(
    [
        marker(0, False),
        tsc(3, 0x800010),  # A: top bit set -> sandwiched, gets a time
        marker(1, True),
        tsc(4, 0x000020),  # B
        tsc(5, 0x000030),  # C (last word in the stream)
    ]
)

bank = b"CBF1" + struct.pack("<II", 6, len(fifo)) + fifo
bank += b"\x00" * ((-len(fifo)) % 8)
event = struct.pack("<HHIIIII", CHRONOBOX_EVENT_ID, 0, 0, 100, len(bank) + 8, len(bank), 17) + bank

odb = b"odb"
bor = struct.pack("<HHIII", 0x8000, 0x494D, RUN, 100, len(odb)) + odb
eor = struct.pack("<HHIII", 0x8001, 0x494D, RUN, 101, len(odb)) + odb

with open(out, "wb") as f:
    f.write(bor + event + eor)
print(f"wrote {out}: fifo words = {[fifo[i:i+4][::-1].hex() for i in range(0, len(fifo), 4)]}")
