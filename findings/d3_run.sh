#!/bin/sh
# Regenerate the synthetic MIDAS file and run alpha-g-chronobox-timestamps on it.
set -eu
export CARGO_TARGET_DIR=/tmp/wt/d3/target
cd /tmp/wt/d3
python3 demo/gen.py demo/run00001sub000.mid
cargo build --offline -q -p alpha-g-analysis --bin alpha-g-chronobox-timestamps
"$CARGO_TARGET_DIR/debug/alpha-g-chronobox-timestamps" demo/run00001sub000.mid -o demo/out
echo "--- demo/out.csv ---"
cat demo/out.csv
